(* C09 — cache-assisted scans equal fresh scans over any edit history.
   Statements only; proofs in Fs/FsProofsCache.v over the state machine Fs/Cache.v
   (edits, exclusion changes, cache replacement / tampering / damage, scans) with
   the analysis and the file-name -> language map as oracles and md5 injective. *)
From Verif Require Import Base Codebase Exclude GenScan FsScan Cache FsProofsCache GenCompare TieProofs.
Open Scope Z_scope.

Section C09.
  Variable supported : pystr -> option pystr.
  Variable analyze : pystr -> Z -> analysis.

  (* every scan of every history equals the from-scratch scan of the file system at that moment:
     same files, order, checksums, languages, results *)
  Theorem C09_equal : forall ops ops1 ops2, ops = ops1 ++ Scan :: ops2 -> Forall (good_op supported analyze) ops ->
    let st := fst (run supported analyze init ops1) in
    map fst (snd (step supported analyze st Scan)) = fresh_scan supported analyze st.
  Proof. exact (FsProofsCache.C09_equal supported analyze). Qed.
  Theorem C09_equal_all : forall ops, Forall (good_op supported analyze) ops ->
    map (map fst) (snd (run supported analyze init ops)) = fresh_outs supported analyze init ops.
  Proof. exact (FsProofsCache.C09_equal_all supported analyze). Qed.

  (* a result is reused only for a file whose path and content are unchanged, from a cache of this version *)
  Theorem C09_reuse_only_unchanged : forall st e, In (e, false) (snd (step supported analyze st Scan)) ->
    exists es, st_cache st = CDoc tool_version es /\
      In (se_path e, (se_checksum e, se_result e)) es /\ In (se_path e, se_checksum e) (st_files st).
  Proof. exact (FsProofsCache.C09_reuse_only_unchanged supported analyze). Qed.

  (* a cache written by another version (whatever its entries) is never used: everything is analysed again *)
  Theorem C09_other_version : forall st v es, v <> tool_version ->
    let st1 := fst (step supported analyze st (ReplaceCache v es)) in
    let '(st2, out) := step supported analyze st1 Scan in
    map fst out = fresh_scan supported analyze st /\
    Forall (fun eb => snd eb = true) out /\
    st_cache st2 = CDoc tool_version (to_cache (fresh_scan supported analyze st)).
  Proof. exact (FsProofsCache.C09_other_version_rescans supported analyze). Qed.

  (* the invariant that carries it: every entry of a usable cache is the analysis of the content with that
     checksum under the language of that path — independent of the current file system *)
  Theorem C09_invariant : CacheOK supported analyze (st_cache init) /\
    forall st o, good_op supported analyze o -> CacheOK supported analyze (st_cache st) ->
                 CacheOK supported analyze (st_cache (fst (step supported analyze st o))).
  Proof. exact (conj (CacheOK_init supported analyze) (CacheOK_step supported analyze)). Qed.
End C09.

Theorem C09_version_guard : forall v es, v <> tool_version -> usable_cache (CDoc v es) = None.
Proof. exact FsProofsCache.C09_version_guard. Qed.

(* the reuse decision of the model is the condition _scan_file states (regenerated from Scanner.py on this run):
   a cached entry is reused exactly when there is one for the path and its checksum equals the file's *)
Theorem C09_reuse_condition_tied : forall (supported : pystr -> option pystr) (analyze : pystr -> Z -> analysis) ca f,
  (forall ck res, cache_get ca (fst f) = Some (ck, res) ->
     scan_one supported analyze (Some ca) f =
     if reuse_cached_entry true ck (snd f) then (mkSentry (fst f) (snd f) res, false)
     else (mkSentry (fst f) (snd f) (analyze (match supported (last (fst f) []) with Some l => l | None => [] end) (snd f)), true)) /\
  (cache_get ca (fst f) = None -> reuse_cached_entry false 0 (snd f) = false /\
     snd (scan_one supported analyze (Some ca) f) = true).
Proof. intros. split; [intros ck res H; exact (tie_scan_one supported analyze ca f ck res H)|exact (tie_scan_one_no_entry supported analyze ca f)]. Qed.

Print Assumptions C09_equal.
Print Assumptions C09_equal_all.
Print Assumptions C09_reuse_only_unchanged.
Print Assumptions C09_other_version.
Print Assumptions C09_invariant.
Print Assumptions C09_version_guard.
Print Assumptions C09_reuse_condition_tied.
(* the version gate of the model is the test _read_cached_report states (regenerated from scan.py on this run) *)
Theorem C09_version_gate_tied : forall v es,
  (exists x, usable_cache (CDoc v es) = Some x) <-> cache_version_accepted true v tool_version = true.
Proof. exact tie_usable_cache. Qed.
Print Assumptions C09_version_gate_tied.
