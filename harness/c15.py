"""C15 — built-in header patterns are unambiguous on every token."""
import multiprocessing as mp

from common import Check, assert_repo_import, eval_cases, eval_one, canon_tree, coq_list, pystr, NPROC
import gsm_common as G

IMPORTS = "Base Regex Nfa Dfa Token TokEngine GenPatterns Headers"
LANGS = ["C", "Cpp", "CSharp", "Java", "JavaScript", "Python", "TypeScript"]

COMMON = [(1, "f"), (2, "("), (2, ")"), (2, "{"), (7, "1")]
EXTRA = {
    "C": [(2, ";"), (2, "}")], "Cpp": [(2, ";"), (0, "class")], "CSharp": [(2, ";"), (0, "new")],
    "Java": [(0, "throws"), (2, ";"), (0, "new"), (0, "record"), (2, ",")],
    "JavaScript": [(0, "function"), (0, "const"), (3, "="), (0, "async"), (2, "=>")],
    "Python": [(0, "def"), (0, "async"), (2, ":"), (3, "=")],
    "TypeScript": [(0, "function"), (1, "function"), (0, "const"), (3, "="), (0, "async"), (2, "=>"), (3, ":")],
}


def _reversed_n2d():
    """nfa_to_dfa with every state's transition list reversed (a Python set's iteration order is arbitrary)"""
    from codelimit.common.gsm import matcher as _m
    orig = _m.nfa_to_dfa

    def rev(nfa):
        dfa = orig(nfa)
        seen, stack = set(), [dfa.start]
        while stack:
            st = stack.pop()
            if id(st) in seen:
                continue
            seen.add(id(st))
            st.transition.reverse()
            stack.extend(t[1] for t in st.transition)
        return dfa
    return _m, orig, rev


def _work(args):
    lang, words = args
    from codelimit.common.Location import Location
    from codelimit.common.Token import Token
    from codelimit.languages import Languages
    from pygments.token import Keyword as K, Name as N, Punctuation as Pu, Operator as Op, Literal
    kinds = {0: K, 1: N, 2: Pu, 3: Op, 7: Literal.Number}
    language = getattr(Languages, lang)
    out = []
    for w in words:
        toks = [Token(Location(1, i + 1), kinds[k], v) for i, (k, v) in enumerate(w)]

        def hs():
            ids = {id(t): i for i, t in enumerate(toks)}
            return [[ids[id(h.name_token)], h.token_range.start, h.token_range.end]
                    for h in language.extract_headers(toks)]
        r = G.guarded(hs)
        if r[0] == 0:
            # the same sequence with the transitions of every matcher state tried in the opposite order
            _m, orig, rev = _reversed_n2d()
            _m.nfa_to_dfa = rev
            try:
                r2 = G.guarded(hs)
            finally:
                _m.nfa_to_dfa = orig
            if r2 != r:
                r = r2 if r2[0] != 0 else [1, 99]
        out.append((w, r))
    return lang, out


def tok_lit(w):
    return "(toks " + coq_list(f"({k}, {pystr(v)})" for k, v in w) + ")"


def run(tier, seed, replay=None):
    assert_repo_import()
    chk = Check("C15", tier, seed)
    model_ok = chk.proof_stage(["Gsm/Unamb.vo", "Scope/Headers.vo", "Gen/GenPatterns.vo", "Gsm/UnambProofs.vo"])
    tlen = 4 if tier == "quick" else 5
    jobs = []
    for lang in LANGS:
        alpha = COMMON + EXTRA[lang]
        ws = G.all_words(alpha, tlen)
        # nesting at any depth: random longer sequences rich in parentheses
        for _ in range(400 if tier == "quick" else 8000):
            n = chk.rng.randint(6, 30)
            ws.append(tuple(chk.rng.choice(alpha + [(2, "("), (2, ")"), (2, "(")]) for _ in range(n)))
        for k in range(0, len(ws), 1500):
            jobs.append((lang, ws[k:k + 1500]))
    model_cases = []
    with mp.Pool(NPROC) as pool:
        for lang, res in pool.imap_unordered(_work, jobs):
            li = LANGS.index(lang)
            for w, r in res:
                chk.evaluations += 1
                if r[0] == 0 and r[1]:
                    chk.nontrivial.add((lang, w))
                if r[0] != 0:
                    what = "the matcher's ambiguity error (ValueError: Multiple transitions found!)" if r[1] == 3 \
                        else "a different result when the transitions of a matcher state are tried in another order" if r[1] == 99 \
                        else f"an internal error (kind {r[1]})"
                    chk.violation({"language": lang, "tokens": list(w)},
                                  f"{lang}: extract_headers on `{' '.join(v for _, v in w)}` raised {what}")
            chk.count(lang, len(res))
            for w, r in res[:: 11]:
                model_cases.append((f"enc_headers (extract_headers (lang_code {li}) {tok_lit(w)})", r,
                                    {"language": lang, "tokens": [v for _, v in w]}))
    chk.samples = [c for _, _, c in model_cases[700:704]]
    if model_ok:
        mism, err = eval_cases("C15", IMPORTS, [(m, o) for m, o, _ in model_cases], shard=500)
        chk.traces = len(model_cases)
        if err:
            chk.broken.append("correspondence evaluation failed: " + err[-400:])
        for i in mism[:5]:
            got = eval_one("C15", IMPORTS, model_cases[i][0])
            chk.broken.append(f"correspondence: extract_headers model and implementation differ on {model_cases[i][2]}: "
                              f"model {got} vs implementation {canon_tree(model_cases[i][1])}")
    else:
        chk.broken.append("model does not build against the captured patterns; correspondence not run")
    nt = len(chk.nontrivial)
    chk.nontrivial = {str(i) for i in range(nt)}
    return chk.finish(
        rule=f"per language: every token sequence of length <= {tlen} over the tokens its patterns distinguish "
             "(name, its literals in their kinds, a neutral token) plus random parenthesis-rich sequences of length "
             "6..30, through the real extract_headers, watching for the ambiguity error; 1 in 11 compared with the "
             "model.  The certificate itself (all reachable abstract configurations x all token classes) is a "
             "vm_compute obligation in Props/C15.v.  Non-trivial: at least one header found.",
        assumptions=["patterns are captured by wrapping get_headers in each language module"],
        extra={"exhaustive": True})
