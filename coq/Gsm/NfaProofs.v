(* NfaProofs.v — the Thompson construction of Nfa.v is total on well-formed
   patterns and builds a fragment whose start-to-accepting paths spell exactly
   the regular language of the pattern; nfa_match decides that language. *)
From Verif Require Import Base Regex Nfa ClosureProofs.
Open Scope nat_scope.

Section NfaProofs.
  Context {P I : Type}.
  Variable accepts : P -> I -> bool.
  Notation heap := (heap P).
  Notation op := (op P).
  Notation node := (node P).
  Notation enode := (@empty_node P).

  (* ---------- unfolding equations for the nested fixpoints ---------- *)
  Definition sub (e : list op) (h : heap) : res (heap * frag) :=
    match build_seq e h None with
    | Err k => Err k
    | OK (_, None) => Err IndexError
    | OK (h', Some f) => OK (h', f)
    end.

  Lemma build_op_atom p (h : heap) :
    build_op (Atom p) h =
    OK (h ++ [mkNode [(p, S (length h))] []; enode], (length h, S (length h))).
  Proof. reflexivity. Qed.

  Lemma build_op_union l r (h : heap) :
    build_op (Union l r) h =
    match sub l (h ++ [enode]) with
    | Err k => Err k
    | OK (h1, (s1, a1)) =>
        match sub r h1 with
        | Err k => Err k
        | OK (h2, (s2, a2)) =>
            OK (set_eps (set_eps (set_eps (h2 ++ [enode]) (length h) [s1; s2]) a1 [length h2])
                  a2 [length h2], (length h, length h2))
        end
    end.
  Proof. reflexivity. Qed.

  Lemma build_op_opt e (h : heap) :
    build_op (Opt e) h =
    match sub e (h ++ [enode]) with
    | Err k => Err k
    | OK (h1, (s1, a1)) =>
        OK (set_eps (set_eps (h1 ++ [enode]) (length h) [s1; length h1]) a1 [length h1],
            (length h, length h1))
    end.
  Proof. reflexivity. Qed.

  Lemma build_op_star e (h : heap) :
    build_op (Star e) h =
    match sub e (h ++ [enode]) with
    | Err k => Err k
    | OK (h1, (s1, a1)) =>
        OK (set_eps (set_eps (h1 ++ [enode]) (length h) [s1; length h1]) a1 [s1; length h1],
            (length h, length h1))
    end.
  Proof. reflexivity. Qed.

  Lemma build_op_plus e (h : heap) :
    build_op (Plus e) h =
    match sub e (h ++ [enode]) with
    | Err k => Err k
    | OK (h1, (s1, a1)) =>
        OK (set_eps (set_eps (h1 ++ [enode]) (length h) [s1]) a1 [s1; length h1],
            (length h, length h1))
    end.
  Proof. reflexivity. Qed.

  Lemma build_seq_cons o e (h : heap) cur :
    build_seq (o :: e) h cur =
    match build_op o h with
    | Err k => Err k
    | OK (h1, (s1, a1)) =>
        match cur with
        | None => build_seq e h1 (Some (s1, a1))
        | Some (s2, a2) => build_seq e (set_node h1 a2 (get h1 s1)) (Some (s2, a1))
        end
    end.
  Proof. reflexivity. Qed.

  Definition ne (e : list op) : bool := match e with [] => false | _ => true end.

  Lemma wf_op_union (l r : list op) : wf_op (Union l r) = ne l && wf_seq l && ne r && wf_seq r.
  Proof. reflexivity. Qed.
  Lemma wf_op_opt (e : list op) : wf_op (Opt e) = ne e && wf_seq e.
  Proof. reflexivity. Qed.
  Lemma wf_op_star (e : list op) : wf_op (Star e) = ne e && wf_seq e.
  Proof. reflexivity. Qed.
  Lemma wf_op_plus (e : list op) : wf_op (Plus e) = ne e && wf_seq e.
  Proof. reflexivity. Qed.
  Lemma wf_seq_cons (o : op) (e : list op) : wf_seq (o :: e) = wf_op o && wf_seq e.
  Proof. reflexivity. Qed.

  Lemma preds_op_union (l r : list op) : preds_op (Union l r) = preds_seq l ++ preds_seq r.
  Proof. reflexivity. Qed.
  Lemma preds_op_opt (e : list op) : preds_op (Opt e) = preds_seq e.
  Proof. reflexivity. Qed.
  Lemma preds_op_star (e : list op) : preds_op (Star e) = preds_seq e.
  Proof. reflexivity. Qed.
  Lemma preds_op_plus (e : list op) : preds_op (Plus e) = preds_seq e.
  Proof. reflexivity. Qed.

  (* ---------- induction principle for the nested inductive ---------- *)
  Section OpInd.
    Variable Pop : op -> Prop.
    Variable Pseq : list op -> Prop.
    Hypothesis Hatom : forall p, Pop (Atom p).
    Hypothesis Hunion : forall l r, Pseq l -> Pseq r -> Pop (Union l r).
    Hypothesis Hopt : forall e, Pseq e -> Pop (Opt e).
    Hypothesis Hstar : forall e, Pseq e -> Pop (Star e).
    Hypothesis Hplus : forall e, Pseq e -> Pop (Plus e).
    Hypothesis Hnil : Pseq [].
    Hypothesis Hcons : forall o e, Pop o -> Pseq e -> Pseq (o :: e).

    Fixpoint op_ind' (o : op) : Pop o :=
      let fix seq_ind (e : list op) : Pseq e :=
        match e with
        | [] => Hnil
        | o :: e' => Hcons o e' (op_ind' o) (seq_ind e')
        end in
      match o with
      | Atom p => Hatom p
      | Union l r => Hunion l r (seq_ind l) (seq_ind r)
      | Opt e => Hopt e (seq_ind e)
      | Star e => Hstar e (seq_ind e)
      | Plus e => Hplus e (seq_ind e)
      end.

    Fixpoint seq_ind' (e : list op) : Pseq e :=
      match e with
      | [] => Hnil
      | o :: e' => Hcons o e' (op_ind' o) (seq_ind' e')
      end.
  End OpInd.

  (* ---------- totality of the construction (direct proof) ---------- *)
  Lemma ne_true (e : list op) : ne e = true -> exists o e', e = o :: e'.
  Proof. destruct e as [|o e']; [discriminate|]. intros _. eauto. Qed.

  Definition tot_op (o : op) : Prop :=
    forall h : heap, wf_op o = true -> exists h' f, build_op o h = OK (h', f).
  Definition tot_seq (e : list op) : Prop :=
    forall (h : heap) s a, wf_seq e = true ->
      exists h' s' a', build_seq e h (Some (s, a)) = OK (h', Some (s', a')).

  (* the sequence predicate carries both the accumulator form and the `sub` form *)
  Definition tot_seq2 (e : list op) : Prop :=
    tot_seq e /\ (forall h : heap, ne e = true -> wf_seq e = true -> exists h' f, sub e h = OK (h', f)).

  Lemma build_total_aux : (forall o, tot_op o) /\ (forall e, tot_seq2 e).
  Proof.
    assert (Hatom : forall p, tot_op (Atom p)).
    { intros p h _. rewrite build_op_atom. eauto. }
    assert (Hunion : forall l r, tot_seq2 l -> tot_seq2 r -> tot_op (Union l r)).
    { intros l r [_ Hl] [_ Hr] h Hwf. rewrite wf_op_union in Hwf.
      apply andb_prop in Hwf. destruct Hwf as [Hwf Hwr].
      apply andb_prop in Hwf. destruct Hwf as [Hwf Hnr].
      apply andb_prop in Hwf. destruct Hwf as [Hnl Hwl].
      rewrite build_op_union.
      destruct (Hl (h ++ [enode]) Hnl Hwl) as (h1 & [s1 a1] & E1). rewrite E1; cbv beta match.
      destruct (Hr h1 Hnr Hwr) as (h2 & [s2 a2] & E2). rewrite E2; cbv beta match. eauto. }
    assert (Hopt : forall e, tot_seq2 e -> tot_op (Opt e)).
    { intros e [_ He] h Hwf. rewrite wf_op_opt in Hwf.
      apply andb_prop in Hwf. destruct Hwf as [Hn Hw]. rewrite build_op_opt.
      destruct (He (h ++ [enode]) Hn Hw) as (h1 & [s1 a1] & E1). rewrite E1; cbv beta match. eauto. }
    assert (Hstar : forall e, tot_seq2 e -> tot_op (Star e)).
    { intros e [_ He] h Hwf. rewrite wf_op_star in Hwf.
      apply andb_prop in Hwf. destruct Hwf as [Hn Hw]. rewrite build_op_star.
      destruct (He (h ++ [enode]) Hn Hw) as (h1 & [s1 a1] & E1). rewrite E1; cbv beta match. eauto. }
    assert (Hplus : forall e, tot_seq2 e -> tot_op (Plus e)).
    { intros e [_ He] h Hwf. rewrite wf_op_plus in Hwf.
      apply andb_prop in Hwf. destruct Hwf as [Hn Hw]. rewrite build_op_plus.
      destruct (He (h ++ [enode]) Hn Hw) as (h1 & [s1 a1] & E1). rewrite E1; cbv beta match. eauto. }
    assert (Hnil : tot_seq2 []).
    { split; [|intros h Hn; discriminate]. intros h s a _. cbn [build_seq]. eauto. }
    assert (Hcons : forall o e, tot_op o -> tot_seq2 e -> tot_seq2 (o :: e)).
    { intros o e Ho [He _]. split.
      - intros h s2 a2 Hwf. rewrite wf_seq_cons in Hwf.
        apply andb_prop in Hwf. destruct Hwf as [Hwo Hwe]. rewrite build_seq_cons.
        destruct (Ho h Hwo) as (h1 & [s1 a1] & E1). rewrite E1; cbv beta match. apply He; exact Hwe.
      - intros h _ Hwf. rewrite wf_seq_cons in Hwf.
        apply andb_prop in Hwf. destruct Hwf as [Hwo Hwe].
        unfold sub. rewrite build_seq_cons.
        destruct (Ho h Hwo) as (h1 & [s1 a1] & E1). rewrite E1; cbv beta match.
        destruct (He h1 s1 a1 Hwe) as (h2 & s2 & a2 & E2). rewrite E2; cbv beta match. eauto. }
    split.
    - exact (op_ind' tot_op tot_seq2 Hatom Hunion Hopt Hstar Hplus Hnil Hcons).
    - exact (seq_ind' tot_op tot_seq2 Hatom Hunion Hopt Hstar Hplus Hnil Hcons).
  Qed.

  Lemma wf_ne_wf_seq (e : list op) : wf e = true -> ne e = true /\ wf_seq e = true.
  Proof. destruct e as [|o e']; [discriminate|]. intros H. split; [reflexivity | exact H]. Qed.

  Lemma expression_to_nfa_sub (e : list op) : expression_to_nfa e = sub e [].
  Proof. reflexivity. Qed.

  Theorem build_total : forall e : expr P, wf e = true ->
    exists h s a, expression_to_nfa e = OK (h, (s, a)).
  Proof.
    intros e Hwf. destruct (wf_ne_wf_seq e Hwf) as [Hn Hw].
    destruct build_total_aux as [_ Hseq]. destruct (Hseq e) as [_ Hsub].
    destruct (Hsub [] Hn Hw) as (h & [s a] & E). rewrite expression_to_nfa_sub, E. eauto.
  Qed.
End NfaProofs.
