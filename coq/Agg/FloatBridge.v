(* FloatBridge.v — connects the floating-point error bound of FloatBound.v (the binary64 value of
   `(a / t) * 100 - 0.001` lies within 10^-12 of the exact rational) to the admissibility relation of
   PercentFloat.v (`ceil_within`, `may_show`): the ceilings that binary64 arithmetic produces are
   admissible ceilings, hence the whole of quality_profile_percentage evaluated with binary64
   ceilings is an admissible outcome, to which the robust_* theorems of PercentFloatProofs.v apply.

   No axiom is declared here; the assumptions are those of the standard library's reals. *)
From Verif Require Import Base GenPercent Percent PercentFloat PercentFloatProofs FloatBound.
From Coq Require Import Reals ZArith Lia Lra.
From Flocq Require Import Core.
Local Open Scope Z_scope.

(* cdiv is the integer ceiling of the real quotient *)
Lemma cdiv_Zceil : forall n d : Z, (0 < d)%Z -> cdiv n d = Zceil (IZR n / IZR d).
Proof.
  intros n d Hd. unfold cdiv, Zceil. f_equal.
  replace (- (IZR n / IZR d))%R with (IZR (- n) / IZR d)%R
    by (rewrite opp_IZR; unfold Rdiv; ring).
  symmetry. apply Zfloor_div. lia.
Qed.

Lemma IZR_tol_pos : (0 < IZR tol_den)%R.
Proof. apply IZR_lt. exact tol_pos. Qed.

(* a real within 1/tol_den of num/den has an admissible ceiling *)
Lemma ceil_within_of_close : forall (num den : Z) (y : R), (0 < den)%Z ->
  (Rabs (y - IZR num / IZR den) <= 1 / IZR tol_den)%R -> ceil_within num den (Zceil y).
Proof.
  intros num den y Hd Hy.
  apply Rabs_le_inv in Hy.
  pose proof IZR_tol_pos as HT.
  assert (HD : (0 < IZR den)%R) by (apply IZR_lt; exact Hd).
  assert (HDT : (0 < den * tol_den)%Z) by (pose proof tol_pos; nia).
  unfold ceil_within, ceil_lo, ceil_hi.
  rewrite !cdiv_Zceil by exact HDT.
  split; apply Zceil_le.
  - replace (IZR (num * tol_den - den) / IZR (den * tol_den))%R
      with (IZR num / IZR den - 1 / IZR tol_den)%R.
    + lra.
    + rewrite minus_IZR, !mult_IZR. field. split; lra.
  - replace (IZR (num * tol_den + den) / IZR (den * tol_den))%R
      with (IZR num / IZR den + 1 / IZR tol_den)%R.
    + lra.
    + rewrite plus_IZR, !mult_IZR. field. split; lra.
Qed.

(* the floating-point evaluation of ONE share expression is admissible *)
Theorem float_ceil_admissible : forall a t : Z, (0 <= a <= t)%Z -> (0 < t)%Z -> (t < 2 ^ 53)%Z ->
  ceil_within (a * 100 * 1000 - t) (t * 1000) (Zceil (fl_share a t)).
Proof.
  intros a t Hat Ht Hb.
  apply ceil_within_of_close; [lia |].
  assert (HT : (0 < IZR t)%R) by (apply IZR_lt; exact Ht).
  replace (IZR (a * 100 * 1000 - t) / IZR (t * 1000))%R
    with (IZR a / IZR t * 100 - 1 / 1000)%R.
  - exact (fl_share_close a t Hat Ht Hb).
  - rewrite minus_IZR, !mult_IZR. field. lra.
Qed.

(* the whole function evaluated with binary64 ceilings is an admissible outcome *)
Definition float_outcome (p : list Z) : Z * Z * Z * Z :=
  let total := sumZ p in
  quality_profile_adjust p (Zceil (fl_share (nthZ 1 p) total)) (Zceil (fl_share (nthZ 2 p) total))
                           (Zceil (fl_share (nthZ 3 p) total)).

Theorem float_outcome_admissible : forall p0 p1 p2 p3 : Z,
  (0 <= p0)%Z -> (0 <= p1)%Z -> (0 <= p2)%Z -> (0 <= p3)%Z -> (p0 + p1 + p2 + p3 < 2 ^ 53)%Z ->
  may_show [p0; p1; p2; p3] (float_outcome [p0; p1; p2; p3]).
Proof.
  intros p0 p1 p2 p3 H0 H1 H2 H3 Hb.
  unfold may_show, float_outcome. cbv zeta.
  assert (Hs : sumZ [p0; p1; p2; p3] = p0 + p1 + p2 + p3)
    by (unfold sumZ; cbn [fold_left]; lia).
  rewrite Hs. set (total := p0 + p1 + p2 + p3) in *.
  cbn [nthZ nth].
  exists (Zceil (fl_share p1 total)), (Zceil (fl_share p2 total)), (Zceil (fl_share p3 total)).
  split; [| reflexivity].
  intros Ht.
  unfold share_expr_num_1, share_expr_num_2, share_expr_num_3,
         share_expr_den_1, share_expr_den_2, share_expr_den_3.
  cbn [nthZ nth].
  replace (1 * total * 1 * 1000) with (total * 1000) by lia.
  replace (p1 * 1 * 100 * 1000 - 1 * (1 * total * 1)) with (p1 * 100 * 1000 - total) by lia.
  replace (p2 * 1 * 100 * 1000 - 1 * (1 * total * 1)) with (p2 * 100 * 1000 - total) by lia.
  replace (p3 * 1 * 100 * 1000 - 1 * (1 * total * 1)) with (p3 * 100 * 1000 - total) by lia.
  repeat split; apply float_ceil_admissible; try assumption; unfold total; lia.
Qed.

Print Assumptions float_outcome_admissible.
