(* WfProofsHeaders.v — what every header returned by extract_headers satisfies,
   without any certificate: h_start <= h_name < h_end and the token at h_name
   is an identifier; the headers of ONE pattern are ordered and disjoint
   (C14_ordered_disjoint), hence have pairwise distinct starts. *)
From Verif Require Import Base Regex Nfa Dfa Token TokEngine Scan ScanProofs GenPatterns Headers
  TotalProofsHeaders WfProofsBase.
From Coq Require Import Sorted.
Open Scope nat_scope.

Definition hwf (ts : list token) (h : header) : Prop :=
  h_start h <= h_name h < h_end h /\
  exists tn, nth_error ts (h_name h) = Some tn /\ is_name tn = true.

(* ====================================================================== *)
(* 1. name_index                                                           *)
(* ====================================================================== *)

Lemma first_name_from_spec : forall l i n,
  first_name_from i l = Some n ->
  i <= n < i + length l /\ exists t, nth_error l (n - i) = Some t /\ is_name t = true.
Proof.
  induction l as [|t r IH]; intros i n H; cbn [first_name_from] in H; [discriminate|].
  cbn [length]. destruct (is_name t) eqn:E.
  - inversion H; subst. split; [lia|]. rewrite Nat.sub_diag. exists t. split; [reflexivity | exact E].
  - apply IH in H. destruct H as [Hb (t' & Hn & Ht')]. split; [lia|].
    exists t'. split; [|exact Ht']. replace (n - i) with (S (n - S i)) by lia. exact Hn.
Qed.

Lemma nth_error_skipn' {A} : forall (l : list A) s j, nth_error (skipn s l) j = nth_error l (s + j).
Proof.
  induction l as [|x l IH]; intros s j.
  - rewrite skipn_nil. destruct j, s; reflexivity.
  - destruct s as [|s]; [reflexivity|]. cbn [skipn plus nth_error]. apply IH.
Qed.

Lemma name_index_spec ts s e n : name_index ts s e = OK n ->
  s <= n < e /\ exists tn, nth_error ts n = Some tn /\ is_name tn = true.
Proof.
  unfold name_index. destruct (first_name_from _ _) as [i|] eqn:E; [|discriminate].
  intros H; inversion H; subst i. apply first_name_from_spec in E.
  destruct E as [Hb (t & Hn & Ht)]. rewrite firstn_length in Hb.
  assert (Hlt : n - s < e - s) by lia.
  rewrite (nth_error_firstn_lt _ _ _ Hlt), nth_error_skipn' in Hn.
  replace (s + (n - s)) with n in Hn by lia.
  split; [lia|]. exists t. split; assumption.
Qed.

(* ====================================================================== *)
(* 2. headers are well-formed                                              *)
(* ====================================================================== *)

Lemma mk_headers_spec ts : forall ms hs, mk_headers ts ms = OK hs ->
  Forall (hwf ts) hs /\ map (fun h => (h_start h, h_end h)) hs = ms.
Proof.
  induction ms as [|[s e] r IH]; intros hs H; cbn [mk_headers] in H.
  - inversion H; subst. split; [constructor | reflexivity].
  - destruct (name_index ts s e) as [n|k] eqn:En; [|discriminate].
    destruct (mk_headers ts r) as [hs'|k]; [|discriminate].
    inversion H; subst. destruct (IH hs' eq_refl) as [IH1 IH2]. split.
    + constructor; [|exact IH1]. apply name_index_spec in En. exact En.
    + cbn [map h_start h_end]. rewrite IH2. reflexivity.
Qed.

Definition disjoint_headers (hs : list header) : Prop :=
  StronglySorted (fun h1 h2 => h_end h1 <= h_start h2) hs.

Lemma get_headers_spec ts e fb hs : get_headers ts e fb = OK hs ->
  Forall (hwf ts) hs /\ disjoint_headers hs.
Proof.
  unfold get_headers. destruct (tk_to_dfa e) as [a|k]; [|discriminate].
  assert (Hfound : forall f, match tk_find_all_dfa a ts f with
                             | Err k => Err k | OK ms => mk_headers ts ms end = OK hs ->
                             Forall (hwf ts) hs /\ disjoint_headers hs).
  { intros f H. destruct (tk_find_all_dfa a ts f) as [ms|k] eqn:Ef; [|discriminate].
    apply mk_headers_spec in H. destruct H as [H1 H2]. split; [exact H1|].
    unfold tk_find_all_dfa in Ef.
    destruct (all_greedy tpred_eqb taccept_st a ts) as [cs|k] eqn:Eg.
    - pose proof (C14_ordered_disjoint tpred_eqb taccept_st a ts f cs ms Eg Ef) as Hs.
      rewrite <- H2 in Hs. apply (proj2 (SSf_map _ _ hs)) in Hs. exact Hs.
    - destruct (find_all_err tpred_eqb taccept_st a ts f k Eg) as [k' Ek']. congruence. }
  destruct fb as [f|].
  - destruct (tk_to_dfa f) as [af|k]; [|discriminate]. apply Hfound.
  - apply Hfound.
Qed.

Lemma headers_of_patterns_wf ts : forall ps hs,
  headers_of_patterns ts ps = OK hs -> Forall (hwf ts) hs.
Proof.
  induction ps as [|[e fb] r IH]; intros hs H; cbn [headers_of_patterns] in H.
  - inversion H; subst. constructor.
  - destruct (get_headers ts e fb) as [h1|k] eqn:E1; [|discriminate].
    destruct (headers_of_patterns ts r) as [h2|k]; [|discriminate].
    inversion H; subst. apply Forall_app. split; [|apply IH; reflexivity].
    apply get_headers_spec in E1. tauto.
Qed.

Lemma Forall_filter' {A} (Q : A -> Prop) f l : Forall Q l -> Forall Q (filter f l).
Proof.
  intros H. apply Forall_forall. intros x Hx. apply filter_In in Hx.
  rewrite Forall_forall in H. apply H, Hx.
Qed.

Theorem extract_headers_wf l ts hs : extract_headers l ts = OK hs -> Forall (hwf ts) hs.
Proof.
  unfold extract_headers.
  destruct (headers_of_patterns ts (lang_patterns l)) as [h0|k] eqn:E; [|discriminate].
  apply headers_of_patterns_wf in E.
  destruct l; intros H; inversion H; subst; try exact E; apply Forall_filter', E.
Qed.

(* ====================================================================== *)
(* 3. distinct starts                                                      *)
(* ====================================================================== *)

Lemma disjoint_headers_NoDup ts hs :
  Forall (hwf ts) hs -> disjoint_headers hs -> NoDup (map h_start hs).
Proof.
  intros Hw Hd. apply SS_lt_NoDup. apply (proj1 (SSf_map lt h_start hs)).
  eapply SSf_impl; [|exact Hd]. intros a b Ha Hb Hab. cbv beta in Hab.
  rewrite Forall_forall in Hw. destruct (Hw a Ha) as [Hwa _]. lia.
Qed.

Definition single_pattern (l : language) : Prop := exists e fb, lang_patterns l = [(e, fb)].

Theorem extract_headers_single_NoDup l ts hs :
  single_pattern l -> extract_headers l ts = OK hs -> NoDup (map h_start hs).
Proof.
  intros (e & fb & Ep) H. pose proof (extract_headers_wf l ts hs H) as Hw.
  apply (disjoint_headers_NoDup ts); [exact Hw|].
  unfold extract_headers in H. rewrite Ep in H. cbn [headers_of_patterns] in H.
  destruct (get_headers ts e fb) as [h1|k] eqn:E1; [|discriminate].
  apply get_headers_spec in E1. destruct E1 as [_ Hd]. rewrite app_nil_r in H.
  destruct l; inversion H; subst; try exact Hd; apply SSf_filter, Hd.
Qed.

Lemma single_pattern_C : single_pattern LC. Proof. do 2 eexists; reflexivity. Qed.
Lemma single_pattern_Cpp : single_pattern LCpp. Proof. do 2 eexists; reflexivity. Qed.
Lemma single_pattern_CSharp : single_pattern LCSharp. Proof. do 2 eexists; reflexivity. Qed.
Lemma single_pattern_Java : single_pattern LJava. Proof. do 2 eexists; reflexivity. Qed.
Lemma single_pattern_Python : single_pattern LPython. Proof. do 2 eexists; reflexivity. Qed.

Print Assumptions extract_headers_wf.
Print Assumptions extract_headers_single_NoDup.
