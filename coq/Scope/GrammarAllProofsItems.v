(* GrammarAllProofsItems.v — the selections of LexShapes.v computed on the programs of the grammar of
   GrammarAll.v: for a pair of selections such that every function head is selected by exactly one of
   them (and nothing else is accepted), the two selections together are a permutation of the
   generated descriptors' headers.  Instances: the C-family shape (C, C++, C#), the two JavaScript
   shapes.  No header of a generated program is dropped by the `new` / `record` rule. *)
From Verif Require Import Base Regex Token TokEngine Headers Blocks Spec HeaderSpec LexShapes Grammar GrammarAll.
From Verif Require Import GrammarProofsParen GrammarProofsBrace GrammarProofsHeaders GrammarAllProofsTok GrammarAllProofsCit.
From Verif Require Import GrammarAllProofsSel GrammarAllProofsCand GrammarAllProofsCb.
From Coq Require Import Sorted Permutation.
Open Scope nat_scope.

(* every program is consumed by the group run at depth >= 1 (its parentheses are balanced) *)
Lemma pgain_stmt s : simple_stmt s -> pgain s 0.
Proof.
  intros (body & semi & -> & Hb & Hs). apply pgain_snoc; [apply pgain_inner; exact Hb | apply semi_noparen; exact Hs].
Qed.

Lemma pgain_prefix l pre : forallb (prefix_word l) pre = true -> pgain pre 0.
Proof.
  intros H. apply pgain_plains. apply forallb_forall. intros t Ht. rewrite forallb_forall in H.
  apply prefix_tok_plain, (prefix_word_tok l), H, Ht.
Qed.

Theorem citems_pgain Pc Ph l off ts ds : citems Pc Ph l off ts ds -> pgain ts 0.
Proof.
  induction 1 as [off|off s r ds Hs Hr IH
                 |off kw words cond o body c r ds1 ds2 Hkw Hwords Hcond HPc Ho Hc Hb IHb Hr IHr
                 |off kw colon r ds Hkw Hcolon Hr IH
                 |off o body c r ds1 ds2 Ho Hc Hb IHb Hr IHr
                 |off pre o flat c post semi r ds Hpre Ho Hflat Hc Hpost Hsemi Hr IH
                 |off a tail o body c post semi r ds1 ds2 Hjs Hane Hop Hlast Htail Ho Hc Hpost Hsemi Hb IHb Hr IHr
                 |off pre kn nm gs o body c post semi r ds1 ds2 Hl Hpre Hkn Hnm Hgs Ho Hc Hb IHb Hpost Hsemi Hr IHr
                 |off pre kn nm gs o body c post semi r ds1 ds2 Hl Hpre Hkn Hnm Hgs Ho Hc Hfl Eds Hpost Hsemi Hr IHr
                 |off pre hd nm_off hend_off o body c r ds1 ds2 Hpre Hhd HPh Ho Hc Hb IHb Hflat Hr IHr].
  - apply pgain_nil.
  - apply pgain_app0; [apply pgain_stmt; exact Hs | exact IH].
  - apply pgain_tok; [apply keyword_noparen; exact Hkw|].
    apply pgain_app0; [apply pgain_words; exact Hwords|].
    apply pgain_app0; [destruct Hcond as [->|[Hg _]]; [apply pgain_nil | apply pgain_groups; exact Hg]|].
    apply pgain_tok; [apply lbrace_noparen; exact Ho|].
    apply pgain_app0; [exact IHb|]. apply pgain_tok; [apply rbrace_noparen; exact Hc | exact IHr].
  - apply pgain_tok; [apply keyword_noparen; exact Hkw|]. apply pgain_tok; [eapply operator_noparen; exact Hcolon | exact IH].
  - apply pgain_tok; [apply lbrace_noparen; exact Ho|].
    apply pgain_app0; [exact IHb|]. apply pgain_tok; [apply rbrace_noparen; exact Hc | exact IHr].
  - apply pgain_app0; [apply pgain_plains; exact Hpre|].
    apply pgain_tok; [apply lbrace_noparen; exact Ho|].
    apply pgain_app0; [apply pgain_inner; exact Hflat|].
    apply pgain_tok; [apply rbrace_noparen; exact Hc|].
    apply pgain_app0; [apply pgain_inner; exact Hpost|].
    apply pgain_tok; [apply semi_noparen; exact Hsemi | exact IH].
  - assert (HM : pgain (tail ++ o :: body ++ [c]) 0).
    { apply pgain_app0; [apply pgain_cb_tail; exact Htail|]. apply pgain_tok; [apply lbrace_noparen; exact Ho|].
      apply pgain_snoc; [exact IHb | apply rbrace_noparen; exact Hc]. }
    apply pgain_of_eq. intros dd rest Hd.
    replace ((a ++ tail ++ o :: body ++ c :: post ++ semi :: r) ++ rest)
      with (a ++ (tail ++ o :: body ++ [c]) ++ post ++ semi :: (r ++ rest)) by (norm_app; reflexivity).
    rewrite (pgain_open_prefix a _ Hop) by exact Hd. rewrite HM by lia. cbn [Z.of_nat]. rewrite Z.add_0_r.
    rewrite groups_len_closers by (assumption || lia).
    destruct (semi_noparen semi Hsemi) as [S1 S2]. rewrite groups_len_inside_plain by assumption.
    rewrite IHr by exact Hd. cbn [Z.of_nat]. rewrite Z.add_0_r. norm_len. lia.
  - apply pgain_app0; [apply pgain_plains; exact Hpre|].
    apply pgain_tok; [eapply keyword_noparen, kw_is_keyword; exact Hkn|].
    apply pgain_tok; [apply name_noparen; exact Hnm|].
    apply pgain_app0; [apply pgain_groups; exact Hgs|].
    apply pgain_tok; [apply lbrace_noparen; exact Ho|].
    apply pgain_app0; [exact IHb|]. apply pgain_tok; [apply rbrace_noparen; exact Hc|].
    apply pgain_app0; [apply pgain_inner; exact Hpost|]. apply pgain_tok; [apply semi_noparen; exact Hsemi | exact IHr].
  - apply pgain_app0; [apply pgain_plains; exact Hpre|].
    apply pgain_tok; [eapply keyword_noparen, kw_is_keyword; exact Hkn|].
    apply pgain_tok; [apply name_noparen; exact Hnm|].
    apply pgain_app0; [apply pgain_groups; exact Hgs|].
    apply pgain_tok; [apply lbrace_noparen; exact Ho|].
    apply pgain_app0; [apply pgain_plains; exact Hfl|]. apply pgain_tok; [apply rbrace_noparen; exact Hc|].
    apply pgain_app0; [apply pgain_inner; exact Hpost|]. apply pgain_tok; [apply semi_noparen; exact Hsemi | exact IHr].
  - apply pgain_app0; [apply (pgain_prefix l); exact Hpre|].
    apply pgain_app0; [eapply fhead_pgain; exact Hhd|].
    apply pgain_tok; [apply lbrace_noparen; exact Ho|].
    apply pgain_app0; [exact IHb|]. apply pgain_tok; [apply rbrace_noparen; exact Hc | exact IHr].
Qed.

(* ---------- what the item theorem needs of a selection ---------- *)
Record oksel (Pc : list token -> Prop) (l : language) (c : cand_fn) (f : follow_fn) : Prop := mkOkSel
  { o_c : cshift c;
    o_f : fshift f;
    o_stmt : forall s B, simple_stmt s -> no_acc c f s B;
    o_symbol : forall t s B, is_symbol t s = true -> no_acc c f [t] B;
    o_ctrl : forall kw words cond o B, is_keyword kw = true -> forallb word_tok words = true ->
             (cond = [] \/ (groups cond /\ is_name (last (kw :: words) kw) = false)) -> Pc (words ++ cond) ->
             is_lbrace o = true -> no_acc c f (kw :: words ++ cond ++ [o]) B;
    o_init : forall pre o flat cl B, forallb plain pre = true -> is_lbrace o = true -> forallb plain flat = true ->
             is_rbrace cl = true -> no_acc c f (pre ++ o :: flat ++ [cl]) B;
    o_initstmt : forall pre o flat cl post semi B, forallb plain pre = true -> is_lbrace o = true -> inner flat ->
             is_rbrace cl = true -> inner post -> is_symbol semi semicolon = true ->
             no_acc c f (pre ++ o :: flat ++ cl :: post ++ [semi]) B;
    o_label : forall kw colon B, is_keyword kw = true -> is_operator colon s_colon = true -> no_acc c f [kw; colon] B;
    o_cb : forall a tail o body cl post semi R, is_jsts l = true -> a <> [] -> open_prefix a (length post) ->
           (is_lparen (last a o) = true \/ is_symbol (last a o) s_comma = true) ->
           cb_tail tail -> is_lbrace o = true -> is_rbrace cl = true ->
           forallb is_rparen post = true -> is_symbol semi semicolon = true -> pgain body 0 ->
           no_acc c f (a ++ tail ++ [o]) (body ++ cl :: post ++ semi :: R);
    o_prefix : forall pre B, forallb (prefix_word l) pre = true -> hd_ok word B -> no_acc c f pre B }.

Lemma good_oksel Pc l c f : good l c f -> (forall w, fsuf w -> acc c f w 0 = None) -> oksel Pc l c f.
Proof.
  intros G Hfs. constructor.
  - apply (g_c _ _ _ G).
  - apply (g_f _ _ _ G).
  - apply (stmt_no_acc l c f G).
  - apply (symbol_no_acc l c f G).
  - intros kw words cond o B Hkw Hwords Hcond _ Ho. apply (ctrl_front_no_acc l c f G); assumption.
  - apply (init_front_no_acc l c f G).
  - apply (init_stmt_no_acc l c f G).
  - apply (label_no_acc l c f G).
  - intros a tail o body cl post semi R _. apply (cb_front_no_acc l c f G Hfs).
  - apply (prefix_no_acc l c f G).
Qed.

(* ---------- segments of one selection ---------- *)
Section OneSelection.
  Variable Pc : list token -> Prop.
  Variable l : language.
  Variable c : cand_fn.
  Variable f : follow_fn.
  Hypothesis G : oksel Pc l c f.

  Let Hc := o_c _ _ _ _ G.
  Let Hf := o_f _ _ _ _ G.

  Lemma seg_stmt off s B : simple_stmt s -> Seg c f off s B [].
  Proof. intros Hs. apply (Seg_none c f Hc Hf). apply (o_stmt _ _ _ _ G). exact Hs. Qed.

  Lemma seg_symbol off t s B : is_symbol t s = true -> Seg c f off [t] B [].
  Proof. intros Hs. apply (Seg_none c f Hc Hf). apply (o_symbol _ _ _ _ G t s). exact Hs. Qed.

  Lemma seg_ctrl off kw words cond o body cl r B hb hr :
    is_keyword kw = true -> forallb word_tok words = true ->
    (cond = [] \/ (groups cond /\ is_name (last (kw :: words) kw) = false)) -> Pc (words ++ cond) ->
    is_lbrace o = true -> is_rbrace cl = true ->
    Seg c f (off + 1 + length words + length cond + 1) body (([cl] ++ r) ++ B) hb ->
    Seg c f (off + 1 + length words + length cond + 1 + length body + 1) r B hr ->
    Seg c f off (kw :: words ++ cond ++ o :: body ++ cl :: r) B (hb ++ hr).
  Proof.
    intros Hkw Hwords Hcond HPc Ho Hcl Hb Hr.
    replace (kw :: words ++ cond ++ o :: body ++ cl :: r) with ((kw :: words ++ cond ++ [o]) ++ body ++ [cl] ++ r)
      by (norm_app; reflexivity).
    change (hb ++ hr) with ([] ++ hb ++ [] ++ hr).
    apply Seg_app.
    { apply (Seg_none c f Hc Hf). apply (o_ctrl _ _ _ _ G); assumption. }
    replace (off + length (kw :: words ++ cond ++ [o])) with (off + 1 + length words + length cond + 1) by (norm_len; lia).
    apply Seg_app; [exact Hb|].
    apply Seg_app; [eapply seg_symbol; exact Hcl|].
    cbn [length]. exact Hr.
  Qed.

  Lemma seg_block off o body cl r B hb hr :
    is_lbrace o = true -> is_rbrace cl = true ->
    Seg c f (off + 1) body (([cl] ++ r) ++ B) hb ->
    Seg c f (off + 1 + length body + 1) r B hr ->
    Seg c f off (o :: body ++ cl :: r) B (hb ++ hr).
  Proof.
    intros Ho Hcl Hb Hr.
    change (o :: body ++ cl :: r) with ([o] ++ body ++ [cl] ++ r).
    change (hb ++ hr) with ([] ++ hb ++ [] ++ hr).
    apply Seg_app; [eapply seg_symbol; exact Ho|].
    cbn [length]. apply Seg_app; [exact Hb|].
    apply Seg_app; [eapply seg_symbol; exact Hcl|].
    cbn [length]. exact Hr.
  Qed.

  Lemma seg_init off pre o flat cl post semi r B hr :
    forallb plain pre = true -> is_lbrace o = true -> inner flat -> is_rbrace cl = true ->
    inner post -> is_symbol semi semicolon = true ->
    Seg c f (off + length pre + 1 + length flat + 1 + length post + 1) r B hr ->
    Seg c f off (pre ++ o :: flat ++ cl :: post ++ semi :: r) B hr.
  Proof.
    intros Hpre Ho Hflat Hcl Hpost Hsemi Hr.
    replace (pre ++ o :: flat ++ cl :: post ++ semi :: r) with ((pre ++ o :: flat ++ cl :: post ++ [semi]) ++ r)
      by (norm_app; reflexivity).
    change hr with ([] ++ hr).
    apply Seg_app.
    { apply (Seg_none c f Hc Hf). apply (o_initstmt _ _ _ _ G); assumption. }
    replace (off + length (pre ++ o :: flat ++ cl :: post ++ [semi]))
      with (off + length pre + 1 + length flat + 1 + length post + 1) by (norm_len; lia).
    exact Hr.
  Qed.

  Lemma seg_label off kw colon r B hr :
    is_keyword kw = true -> is_operator colon s_colon = true ->
    Seg c f (off + 2) r B hr -> Seg c f off (kw :: colon :: r) B hr.
  Proof.
    intros Hkw Hco Hr. change (kw :: colon :: r) with ([kw; colon] ++ r). change hr with ([] ++ hr).
    apply Seg_app; [|exact Hr]. apply (Seg_none c f Hc Hf). apply (o_label _ _ _ _ G); assumption.
  Qed.

  Lemma symbols_no_acc A B : Forall (fun t => exists s, is_symbol t s = true) A -> no_acc c f A B.
  Proof.
    intros H. revert B. induction H as [|t A [s0 Ht] _ IH]; intros B; [apply no_acc_nil|].
    change (t :: A) with ([t] ++ A). apply (no_acc_app c f Hc Hf); [apply (o_symbol _ _ _ _ G t s0); exact Ht | apply IH].
  Qed.

  Lemma seg_cb off a tail o body cl post semi r B hb hr :
    is_jsts l = true -> a <> [] -> open_prefix a (length post) ->
    (is_lparen (last a o) = true \/ is_symbol (last a o) s_comma = true) ->
    cb_tail tail -> is_lbrace o = true -> is_rbrace cl = true ->
    forallb is_rparen post = true -> is_symbol semi semicolon = true -> pgain body 0 ->
    Seg c f (off + length a + length tail + 1) body (((cl :: post ++ [semi]) ++ r) ++ B) hb ->
    Seg c f (off + length a + length tail + 1 + length body + 1 + length post + 1) r B hr ->
    Seg c f off (a ++ tail ++ o :: body ++ cl :: post ++ semi :: r) B (hb ++ hr).
  Proof.
    intros Hjs Hane Hop Hlast Htail Ho Hcl Hpost Hsemi Hbody Hb Hr.
    replace (a ++ tail ++ o :: body ++ cl :: post ++ semi :: r)
      with ((a ++ tail ++ [o]) ++ body ++ (cl :: post ++ [semi]) ++ r) by (norm_app; reflexivity).
    change (hb ++ hr) with ([] ++ hb ++ [] ++ hr).
    apply Seg_app.
    { apply (Seg_none c f Hc Hf).
      replace ((body ++ (cl :: post ++ [semi]) ++ r) ++ B) with (body ++ cl :: post ++ semi :: (r ++ B)) by (norm_app; reflexivity).
      apply (o_cb _ _ _ _ G); assumption. }
    replace (off + length (a ++ tail ++ [o])) with (off + length a + length tail + 1) by (norm_len; lia).
    apply Seg_app; [exact Hb|].
    apply Seg_app.
    { apply (Seg_none c f Hc Hf). apply symbols_no_acc.
      constructor; [exists rbrace; exact Hcl|]. apply Forall_app. split.
      - apply Forall_forall. intros t Ht. rewrite forallb_forall in Hpost. exists rparen. apply Hpost, Ht.
      - constructor; [exists semicolon; exact Hsemi | constructor]. }
    replace (off + length a + length tail + 1 + length body + length (cl :: post ++ [semi]))
      with (off + length a + length tail + 1 + length body + 1 + length post + 1) by (norm_len; lia).
    exact Hr.
  Qed.

  (* `new Name (…) { body } post ;` — F = pre ++ kn :: nm :: gs, with the segment of F given *)
  Lemma seg_new_items off F o body cl post semi r B hf hb hr :
    is_lbrace o = true -> is_rbrace cl = true -> inner post -> is_symbol semi semicolon = true ->
    Seg c f off F (([o] ++ body ++ [cl] ++ (post ++ [semi]) ++ r) ++ B) hf ->
    Seg c f (off + length F + 1) body (([cl] ++ (post ++ [semi]) ++ r) ++ B) hb ->
    Seg c f (off + length F + 1 + length body + 1 + length post + 1) r B hr ->
    Seg c f off (F ++ [o] ++ body ++ [cl] ++ (post ++ [semi]) ++ r) B (hf ++ hb ++ hr).
  Proof.
    intros Ho Hcl Hpost Hsemi Hf0 Hb Hr.
    change (hf ++ hb ++ hr) with (hf ++ [] ++ hb ++ [] ++ [] ++ hr).
    apply Seg_app; [exact Hf0|].
    apply Seg_app; [eapply seg_symbol; exact Ho|].
    cbn [length]. apply Seg_app; [exact Hb|].
    apply Seg_app; [eapply seg_symbol; exact Hcl|].
    apply Seg_app; [apply seg_stmt; exists post, semi; auto|].
    replace (off + length F + 1 + length body + length [cl] + length (post ++ [semi]))
      with (off + length F + 1 + length body + 1 + length post + 1) by (norm_len; lia).
    exact Hr.
  Qed.

  Lemma seg_new_flat off F o body cl post semi r B hf hr :
    is_lbrace o = true -> forallb plain body = true -> is_rbrace cl = true -> inner post -> is_symbol semi semicolon = true ->
    Seg c f off F (((o :: body ++ [cl]) ++ (post ++ [semi]) ++ r) ++ B) hf ->
    Seg c f (off + length F + 1 + length body + 1 + length post + 1) r B hr ->
    Seg c f off (F ++ (o :: body ++ [cl]) ++ (post ++ [semi]) ++ r) B (hf ++ hr).
  Proof.
    intros Ho Hfl Hcl Hpost Hsemi Hf0 Hr.
    change (hf ++ hr) with (hf ++ [] ++ [] ++ hr).
    apply Seg_app; [exact Hf0|].
    apply Seg_app.
    { apply (Seg_none c f Hc Hf). apply (o_init _ _ _ _ G [] o body cl); try assumption. reflexivity. }
    apply Seg_app; [apply seg_stmt; exists post, semi; auto|].
    replace (off + length F + length (o :: body ++ [cl]) + length (post ++ [semi]))
      with (off + length F + 1 + length body + 1 + length post + 1) by (norm_len; lia).
    exact Hr.
  Qed.

  Lemma seg_func off pre hd o body cl r B hh hb hr :
    forallb (prefix_word l) pre = true -> (exists x hd', hd = x :: hd' /\ word x = true) ->
    is_lbrace o = true -> is_rbrace cl = true ->
    Seg c f (off + length pre) hd (([o] ++ body ++ [cl] ++ r) ++ B) hh ->
    Seg c f (off + length pre + length hd + 1) body (([cl] ++ r) ++ B) hb ->
    Seg c f (off + length pre + length hd + 1 + length body + 1) r B hr ->
    Seg c f off (pre ++ hd ++ o :: body ++ cl :: r) B (hh ++ hb ++ hr).
  Proof.
    intros Hpre (x & hd' & Ehd & Hx) Ho Hcl Hh Hb Hr.
    change (pre ++ hd ++ o :: body ++ cl :: r) with (pre ++ hd ++ [o] ++ body ++ [cl] ++ r).
    change (hh ++ hb ++ hr) with ([] ++ hh ++ [] ++ hb ++ [] ++ hr).
    apply Seg_app.
    { apply (Seg_none c f Hc Hf). apply (o_prefix _ _ _ _ G); [exact Hpre|]. subst hd. cbn [app hd_ok]. exact Hx. }
    apply Seg_app; [exact Hh|].
    apply Seg_app; [eapply seg_symbol; exact Ho|].
    cbn [length]. apply Seg_app; [exact Hb|].
    apply Seg_app; [eapply seg_symbol; exact Hcl|].
    cbn [length]. exact Hr.
  Qed.
End OneSelection.

(* ---------- two selections ---------- *)
Lemma perm_mix {A} (a b c d : list A) : Permutation ((a ++ b) ++ (c ++ d)) ((a ++ c) ++ (b ++ d)).
Proof.
  rewrite <- !app_assoc. apply Permutation_app_head. rewrite !app_assoc. apply Permutation_app_tail.
  apply Permutation_app_comm.
Qed.

Lemma perm2 {A} (b1 b2 r1 r2 mb mr xb xr : list A) :
  Permutation (b1 ++ b2) (mb ++ xb) -> Permutation (r1 ++ r2) (mr ++ xr) ->
  Permutation ((b1 ++ r1) ++ (b2 ++ r2)) ((mb ++ mr) ++ (xb ++ xr)).
Proof.
  intros H1 H2. eapply Permutation_trans; [apply perm_mix|].
  eapply Permutation_trans; [apply Permutation_app; eassumption|]. apply perm_mix.
Qed.

(* a header whose start is preceded by the keyword `new` (dropped by the Java / C# rule) *)
Definition newhdr (off : nat) (ts : list token) (x : header) : Prop :=
  exists k kn, h_start x = off + S k /\ nth_error ts k = Some kn /\ kw_is kn kw_new = true.

Lemma newhdr_ctx off A ts C x : newhdr (off + length A) ts x -> newhdr off (A ++ ts ++ C) x.
Proof.
  intros (k & kn & E & Hn & Hk). exists (length A + k), kn. split; [lia|]. split; [|exact Hk].
  rewrite nth_error_app2 by lia. replace (length A + k - length A) with k by lia.
  rewrite nth_error_app1 by (apply nth_error_Some; congruence). exact Hn.
Qed.

Lemma newhdrs_ctx off off' A ts C xs : off' = off + length A -> Forall (newhdr off' ts) xs -> Forall (newhdr off (A ++ ts ++ C)) xs.
Proof. intros -> H. eapply Forall_impl; [|exact H]. intros x. apply newhdr_ctx. Qed.

Lemma newhdr_dropped ts x : newhdr 0 ts x -> java_drop ts x = true.
Proof.
  intros (k & kn & E & Hn & Hk). unfold java_drop. rewrite E. cbn [Nat.add]. rewrite Hn. cbn [taccept].
  unfold kw_is in Hk. rewrite Hk. apply orb_true_r.
Qed.

Section TwoSelections.
  Variables Pc Ph : list token -> Prop.
  Variable l : language.
  Variables (c1 : cand_fn) (f1 : follow_fn) (c2 : cand_fn) (f2 : follow_fn).
  Hypothesis G1 : oksel Pc l c1 f1.
  Hypothesis G2 : oksel Pc l c2 f2.

  (* every head is selected by exactly one of the two selections *)
  Definition head_split : Prop := forall hd n h o B off, fhead l hd n h -> Ph hd -> is_lbrace o = true ->
    (Seg c1 f1 off hd (o :: B) [mkHeader (off + n) off (off + h)] /\ Seg c2 f2 off hd (o :: B) []) \/
    (Seg c1 f1 off hd (o :: B) [] /\ Seg c2 f2 off hd (o :: B) [mkHeader (off + n) off (off + h)]).
  Hypothesis HS : head_split.

  (* `new Name (…)` in front of a brace: selected by the first selection *)
  Definition new_split : Prop := forall pre kn nm gs o B off, (l = LJava \/ l = LCSharp) ->
    forallb plain pre = true -> kw_is kn kw_new = true -> is_name nm = true -> groups gs -> is_lbrace o = true ->
    Seg c1 f1 off (pre ++ kn :: nm :: gs) (o :: B)
        [mkHeader (off + length pre + 1) (off + length pre + 1) (off + length pre + 2 + length gs)] /\
    Seg c2 f2 off (pre ++ kn :: nm :: gs) (o :: B) [].
  Hypothesis HN : new_split.

  Theorem citems_segs off ts ds : citems Pc Ph l off ts ds -> forall B, exists h1 h2 xs,
    Seg c1 f1 off ts B h1 /\ Seg c2 f2 off ts B h2 /\ Permutation (h1 ++ h2) (map header_of ds ++ xs) /\
    Forall (newhdr off ts) xs /\ ((l = LJava \/ l = LCSharp) \/ xs = []).
  Proof.
    induction 1 as [off|off s r ds Hs Hr IH
                   |off kw words cond o body c r ds1 ds2 Hkw Hwords Hcond HPc Ho Hc Hb IHb Hr IHr
                   |off kw colon r ds Hkw Hcolon Hr IH
                   |off o body c r ds1 ds2 Ho Hc Hb IHb Hr IHr
                   |off pre o flat c post semi r ds Hpre Ho Hflat Hc Hpost Hsemi Hr IH
                   |off a tail o body c post semi r ds1 ds2 Hjs Hane Hop Hlast Htail Ho Hc Hpost Hsemi Hb IHb Hr IHr
                   |off pre kn nm gs o body c post semi r ds1 ds2 Hl Hpre Hkn Hnm Hgs Ho Hc Hb IHb Hpost Hsemi Hr IHr
                   |off pre kn nm gs o body c post semi r ds1 ds2 Hl Hpre Hkn Hnm Hgs Ho Hc Hfl Eds Hpost Hsemi Hr IHr
                   |off pre hd nm_off hend_off o body c r ds1 ds2 Hpre Hhd HPh Ho Hc Hb IHb Hflat Hr IHr]; intros B.
    - exists [], [], []. split; [apply Seg_nil|]. split; [apply Seg_nil|]. split; [constructor|]. split; [constructor | right; reflexivity].
    - destruct (IH B) as (h1 & h2 & xs & S1 & S2 & HP & HX & HL). exists h1, h2, xs.
      split; [|split; [|split; [exact HP|split; [|exact HL]]]].
      + change h1 with ([] ++ h1). apply Seg_app; [apply (seg_stmt Pc l c1 f1 G1); exact Hs | exact S1].
      + change h2 with ([] ++ h2). apply Seg_app; [apply (seg_stmt Pc l c2 f2 G2); exact Hs | exact S2].
      + rewrite <- (app_nil_r r). apply (newhdrs_ctx off _ s r [] xs eq_refl HX).
    - destruct (IHb (([c] ++ r) ++ B)) as (b1 & b2 & xb & Sb1 & Sb2 & HPb & HXb & HLb).
      destruct (IHr B) as (r1 & r2 & xr & Sr1 & Sr2 & HPr & HXr & HLr).
      exists (b1 ++ r1), (b2 ++ r2), (xb ++ xr). split; [|split; [|split; [|split]]].
      + apply (seg_ctrl Pc l c1 f1 G1); assumption.
      + apply (seg_ctrl Pc l c2 f2 G2); assumption.
      + rewrite map_app. apply perm2; assumption.
      + apply Forall_app. split.
        * replace (kw :: words ++ cond ++ o :: body ++ c :: r) with ((kw :: words ++ cond ++ [o]) ++ body ++ (c :: r))
            by (norm_app; reflexivity).
          eapply (newhdrs_ctx off _ _ body _ xb); [|exact HXb]; norm_len; lia.
        * replace (kw :: words ++ cond ++ o :: body ++ c :: r) with ((kw :: words ++ cond ++ o :: body ++ [c]) ++ r ++ [])
            by (rewrite app_nil_r; norm_app; reflexivity).
          eapply (newhdrs_ctx off _ _ r _ xr); [|exact HXr]; norm_len; lia.
      + destruct HLb as [HLb| ->]; [left; exact HLb|]. destruct HLr as [HLr| ->]; [left; exact HLr | right; reflexivity].
    - destruct (IH B) as (h1 & h2 & xs & S1 & S2 & HP & HX & HL). exists h1, h2, xs.
      split; [|split; [|split; [exact HP|split; [|exact HL]]]].
      + apply (seg_label Pc l c1 f1 G1); assumption.
      + apply (seg_label Pc l c2 f2 G2); assumption.
      + replace (kw :: colon :: r) with ([kw; colon] ++ r ++ []) by (rewrite app_nil_r; reflexivity).
        eapply (newhdrs_ctx off _ _ r _ xs); [|exact HX]; norm_len; lia.
    - destruct (IHb (([c] ++ r) ++ B)) as (b1 & b2 & xb & Sb1 & Sb2 & HPb & HXb & HLb).
      destruct (IHr B) as (r1 & r2 & xr & Sr1 & Sr2 & HPr & HXr & HLr).
      exists (b1 ++ r1), (b2 ++ r2), (xb ++ xr). split; [|split; [|split; [|split]]].
      + apply (seg_block Pc l c1 f1 G1); assumption.
      + apply (seg_block Pc l c2 f2 G2); assumption.
      + rewrite map_app. apply perm2; assumption.
      + apply Forall_app. split.
        * replace (o :: body ++ c :: r) with ([o] ++ body ++ (c :: r)) by reflexivity.
          eapply (newhdrs_ctx off _ _ body _ xb); [|exact HXb]; norm_len; lia.
        * replace (o :: body ++ c :: r) with ((o :: body ++ [c]) ++ r ++ []) by (rewrite app_nil_r; norm_app; reflexivity).
          eapply (newhdrs_ctx off _ _ r _ xr); [|exact HXr]; norm_len; lia.
      + destruct HLb as [HLb| ->]; [left; exact HLb|]. destruct HLr as [HLr| ->]; [left; exact HLr | right; reflexivity].
    - destruct (IH B) as (h1 & h2 & xs & S1 & S2 & HP & HX & HL). exists h1, h2, xs.
      split; [|split; [|split; [exact HP|split; [|exact HL]]]].
      + apply (seg_init Pc l c1 f1 G1); assumption.
      + apply (seg_init Pc l c2 f2 G2); assumption.
      + replace (pre ++ o :: flat ++ c :: post ++ semi :: r) with ((pre ++ o :: flat ++ c :: post ++ [semi]) ++ r ++ [])
          by (rewrite app_nil_r; norm_app; reflexivity).
        eapply (newhdrs_ctx off _ _ r _ xs); [|exact HX]; norm_len; lia.
    - destruct (IHb (((c :: post ++ [semi]) ++ r) ++ B)) as (b1 & b2 & xb & Sb1 & Sb2 & HPb & HXb & HLb).
      destruct (IHr B) as (r1 & r2 & xr & Sr1 & Sr2 & HPr & HXr & HLr).
      pose proof (citems_pgain _ _ _ _ _ _ Hb) as Hpg.
      exists (b1 ++ r1), (b2 ++ r2), (xb ++ xr). split; [|split; [|split; [|split]]].
      + apply (seg_cb Pc l c1 f1 G1); assumption.
      + apply (seg_cb Pc l c2 f2 G2); assumption.
      + rewrite map_app. apply perm2; assumption.
      + apply Forall_app. split.
        * replace (a ++ tail ++ o :: body ++ c :: post ++ semi :: r) with ((a ++ tail ++ [o]) ++ body ++ (c :: post ++ semi :: r))
            by (norm_app; reflexivity).
          eapply (newhdrs_ctx off _ _ body _ xb); [|exact HXb]; norm_len; lia.
        * replace (a ++ tail ++ o :: body ++ c :: post ++ semi :: r) with ((a ++ tail ++ o :: body ++ c :: post ++ [semi]) ++ r ++ [])
            by (rewrite app_nil_r; norm_app; reflexivity).
          eapply (newhdrs_ctx off _ _ r _ xr); [|exact HXr]; norm_len; lia.
      + destruct HLb as [HLb| ->]; [left; exact HLb|]. destruct HLr as [HLr| ->]; [left; exact HLr | right; reflexivity].
    - (* new Name (…) { items } post ; *)
      destruct (IHb (([c] ++ (post ++ [semi]) ++ r) ++ B)) as (b1 & b2 & xb & Sb1 & Sb2 & HPb & HXb & HLb).
      destruct (IHr B) as (r1 & r2 & xr & Sr1 & Sr2 & HPr & HXr & HLr).
      destruct (HN pre kn nm gs o ((body ++ [c] ++ (post ++ [semi]) ++ r) ++ B) off Hl Hpre Hkn Hnm Hgs Ho) as [SF1 SF2].
      set (x0 := mkHeader (off + length pre + 1) (off + length pre + 1) (off + length pre + 2 + length gs)) in *.
      replace (pre ++ kn :: nm :: gs ++ o :: body ++ c :: post ++ semi :: r)
        with ((pre ++ kn :: nm :: gs) ++ [o] ++ body ++ [c] ++ (post ++ [semi]) ++ r) by (norm_app; reflexivity).
      exists ([x0] ++ b1 ++ r1), ([] ++ b2 ++ r2), (x0 :: xb ++ xr). split; [|split; [|split; [|split]]].
      + apply (seg_new_items Pc l c1 f1 G1); try assumption.
        * replace (off + length (pre ++ kn :: nm :: gs) + 1) with (off + length pre + 2 + length gs + 1) by (norm_len; lia). exact Sb1.
        * replace (off + length (pre ++ kn :: nm :: gs) + 1 + length body + 1 + length post + 1)
            with (off + length pre + 2 + length gs + 1 + length body + 1 + length post + 1) by (norm_len; lia). exact Sr1.
      + apply (seg_new_items Pc l c2 f2 G2); try assumption.
        * replace (off + length (pre ++ kn :: nm :: gs) + 1) with (off + length pre + 2 + length gs + 1) by (norm_len; lia). exact Sb2.
        * replace (off + length (pre ++ kn :: nm :: gs) + 1 + length body + 1 + length post + 1)
            with (off + length pre + 2 + length gs + 1 + length body + 1 + length post + 1) by (norm_len; lia). exact Sr2.
      + cbn [app]. rewrite map_app. apply Permutation_cons_app. apply perm2; assumption.
      + constructor; [|apply Forall_app; split].
        * exists (length pre), kn. split; [unfold x0; cbn [h_start]; lia|]. split; [|exact Hkn].
          rewrite <- app_assoc. rewrite nth_error_app2 by lia. rewrite Nat.sub_diag. reflexivity.
        * replace ((pre ++ kn :: nm :: gs) ++ [o] ++ body ++ [c] ++ (post ++ [semi]) ++ r)
            with ((pre ++ kn :: nm :: gs ++ [o]) ++ body ++ (c :: post ++ semi :: r)) by (norm_app; reflexivity).
          eapply (newhdrs_ctx off _ _ body _ xb); [|exact HXb]; norm_len; lia.
        * replace ((pre ++ kn :: nm :: gs) ++ [o] ++ body ++ [c] ++ (post ++ [semi]) ++ r)
            with ((pre ++ kn :: nm :: gs ++ o :: body ++ c :: post ++ [semi]) ++ r ++ []) by (rewrite app_nil_r; norm_app; reflexivity).
          eapply (newhdrs_ctx off _ _ r _ xr); [|exact HXr]; norm_len; lia.
      + left. exact Hl.
    - (* new Name (…) { flat } post ; *)
      subst ds1. cbn [app].
      destruct (IHr B) as (r1 & r2 & xr & Sr1 & Sr2 & HPr & HXr & HLr).
      destruct (HN pre kn nm gs o ((body ++ [c] ++ (post ++ [semi]) ++ r) ++ B) off Hl Hpre Hkn Hnm Hgs Ho) as [SF1 SF2].
      set (x0 := mkHeader (off + length pre + 1) (off + length pre + 1) (off + length pre + 2 + length gs)) in *.
      replace (pre ++ kn :: nm :: gs ++ o :: body ++ c :: post ++ semi :: r)
        with ((pre ++ kn :: nm :: gs) ++ (o :: body ++ [c]) ++ (post ++ [semi]) ++ r) by (norm_app; reflexivity).
      exists ([x0] ++ r1), ([] ++ r2), (x0 :: xr). split; [|split; [|split; [|split]]].
      + apply (seg_new_flat Pc l c1 f1 G1); try assumption.
        * replace (((o :: body ++ [c]) ++ (post ++ [semi]) ++ r) ++ B) with (o :: (body ++ [c] ++ (post ++ [semi]) ++ r) ++ B)
            by (norm_app; reflexivity). exact SF1.
        * replace (off + length (pre ++ kn :: nm :: gs) + 1 + length body + 1 + length post + 1)
            with (off + length pre + 2 + length gs + 1 + length body + 1 + length post + 1) by (norm_len; lia). exact Sr1.
      + apply (seg_new_flat Pc l c2 f2 G2); try assumption.
        * replace (((o :: body ++ [c]) ++ (post ++ [semi]) ++ r) ++ B) with (o :: (body ++ [c] ++ (post ++ [semi]) ++ r) ++ B)
            by (norm_app; reflexivity). exact SF2.
        * replace (off + length (pre ++ kn :: nm :: gs) + 1 + length body + 1 + length post + 1)
            with (off + length pre + 2 + length gs + 1 + length body + 1 + length post + 1) by (norm_len; lia). exact Sr2.
      + cbn [app]. apply Permutation_cons_app. exact HPr.
      + constructor.
        * exists (length pre), kn. split; [unfold x0; cbn [h_start]; lia|]. split; [|exact Hkn].
          rewrite <- app_assoc. rewrite nth_error_app2 by lia. rewrite Nat.sub_diag. reflexivity.
        * replace ((pre ++ kn :: nm :: gs) ++ (o :: body ++ [c]) ++ (post ++ [semi]) ++ r)
            with ((pre ++ kn :: nm :: gs ++ o :: body ++ c :: post ++ [semi]) ++ r ++ []) by (rewrite app_nil_r; norm_app; reflexivity).
          eapply (newhdrs_ctx off _ _ r _ xr); [|exact HXr]; norm_len; lia.
      + left. exact Hl.
    - destruct (IHb (([c] ++ r) ++ B)) as (b1 & b2 & xb & Sb1 & Sb2 & HPb & HXb & HLb).
      destruct (IHr B) as (r1 & r2 & xr & Sr1 & Sr2 & HPr & HXr & HLr).
      pose proof (fhead_first _ _ _ _ Hhd) as Hfirst.
      assert (HPbr : Permutation ((b1 ++ r1) ++ (b2 ++ r2)) (map header_of (ds1 ++ ds2) ++ (xb ++ xr))).
      { rewrite map_app. apply perm2; assumption. }
      assert (HXbr : Forall (newhdr off (pre ++ hd ++ o :: body ++ c :: r)) (xb ++ xr)).
      { apply Forall_app. split.
        - replace (pre ++ hd ++ o :: body ++ c :: r) with ((pre ++ hd ++ [o]) ++ body ++ (c :: r)) by (norm_app; reflexivity).
          eapply (newhdrs_ctx off _ _ body _ xb); [|exact HXb]; norm_len; lia.
        - replace (pre ++ hd ++ o :: body ++ c :: r) with ((pre ++ hd ++ o :: body ++ [c]) ++ r ++ [])
            by (rewrite app_nil_r; norm_app; reflexivity).
          eapply (newhdrs_ctx off _ _ r _ xr); [|exact HXr]; norm_len; lia. }
      assert (HLbr : (l = LJava \/ l = LCSharp) \/ xb ++ xr = []).
      { destruct HLb as [HLb| ->]; [left; exact HLb|]. destruct HLr as [HLr| ->]; [left; exact HLr | right; reflexivity]. }
      cbn [map header_of fd_name fd_start fd_hend].
      destruct (HS hd nm_off hend_off o ((body ++ [c] ++ r) ++ B) (off + length pre) Hhd HPh Ho) as [[Sh1 Sh2]|[Sh1 Sh2]].
      + exists ([mkHeader (off + length pre + nm_off) (off + length pre) (off + length pre + hend_off)] ++ b1 ++ r1),
               ([] ++ b2 ++ r2), (xb ++ xr).
        split; [|split; [|split; [|split; assumption]]].
        * apply (seg_func Pc l c1 f1 G1); assumption.
        * apply (seg_func Pc l c2 f2 G2); assumption.
        * cbn [app]. apply perm_skip. exact HPbr.
      + exists ([] ++ b1 ++ r1),
               ([mkHeader (off + length pre + nm_off) (off + length pre) (off + length pre + hend_off)] ++ b2 ++ r2), (xb ++ xr).
        split; [|split; [|split; [|split; assumption]]].
        * apply (seg_func Pc l c1 f1 G1); assumption.
        * apply (seg_func Pc l c2 f2 G2); assumption.
        * cbn [app]. apply Permutation_sym. apply Permutation_cons_app. apply Permutation_sym. exact HPbr.
  Qed.

  Theorem canonical_two_shapes ts ds : citems Pc Ph l 0 ts ds -> exists xs,
    Permutation (shape_headers c1 f1 ts ++ shape_headers c2 f2 ts) (map header_of ds ++ xs) /\
    Forall (newhdr 0 ts) xs /\ ((l = LJava \/ l = LCSharp) \/ xs = []).
  Proof.
    intros H. destruct (citems_segs 0 ts ds H []) as (h1 & h2 & xs & S1 & S2 & HP & HX & HL).
    rewrite (Seg_shape c1 f1 ts h1 S1).
    rewrite (Seg_shape c2 f2 ts h2 S2). exists xs. auto.
  Qed.

  (* languages without the `new` rule *)
  Theorem canonical_two_shapes_plain ts ds : l <> LJava -> l <> LCSharp -> citems Pc Ph l 0 ts ds ->
    Permutation (shape_headers c1 f1 ts ++ shape_headers c2 f2 ts) (map header_of ds).
  Proof.
    intros H1 H2 H. destruct (canonical_two_shapes ts ds H) as (xs & HP & _ & [[E|E]| ->]); try congruence.
    rewrite app_nil_r in HP. exact HP.
  Qed.
End TwoSelections.

(* ---------- a segment that is one accepted candidate, up to list equations ---------- *)
Lemma Seg_head_eq c f (Hc : cshift c) (Hf : fshift f) off A B W n k h :
  acc c f W 0 = Some (n, k) -> W = A ++ B -> k = length A -> h = k -> 0 < k ->
  Seg c f off A B [mkHeader (off + n) off (off + h)].
Proof.
  intros Hacc -> -> -> Hpos. apply (Seg_head c f Hc Hf); assumption.
Qed.

(* ---------- C, C++, C#: one shape ---------- *)
Lemma cfamily_not_jsts l : is_cfamily l = true -> is_jsts l = true -> False.
Proof. destruct l; discriminate. Qed.

Theorem head_split_cfamily l : is_cfamily l = true -> l <> LJava ->
  head_split any_tokens l cand_plain follow_brace cand_never follow_brace.
Proof.
  intros Hl HnJ hd n h o B off Hhd _ Ho.
  destruct Hhd as [nm gs Hcf Hnm Hgs | nm gs thr clause HJ | nm gs Hjs | fk nm gs Hjs | nm gs colon ty HT
                  | fk nm gs colon ty HT | nm eq gs arrow Hjs | nm eq ak gs arrow Hjs | ck nm eq gs arrow Hjs
                  | ck nm eq ak gs arrow Hjs];
    try (exfalso; exact (cfamily_not_jsts l Hl Hjs));
    try (exfalso; subst l; discriminate Hl);
    try (exfalso; exact (HnJ HJ)).
  left. split; [|apply Seg_never].
  apply (Seg_head_eq _ _ cshift_plain fshift_brace off (nm :: gs) (o :: B) (nm :: gs ++ o :: B) 0 (S (length gs)));
    [apply plain_head; assumption | reflexivity | reflexivity | reflexivity | lia].
Qed.

(* ---------- JavaScript: two shapes ---------- *)
Lemma lparen_head_nlp gs R : bgroups gs -> hd_ok noteq (gs ++ R).
Proof.
  intros Hgs. destruct (bgroups_head gs Hgs) as (p & r & -> & Hp). cbn [app hd_ok]. unfold noteq.
  rewrite (symbol_not_operator _ _ _ Hp). reflexivity.
Qed.

Lemma ar_no_method nm gs B : is_name nm = true -> bgroups gs -> no_acc cand_arrow follow_brace (nm :: gs) B.
Proof.
  intros Hnm Hgs. apply (no_acc_cons _ _ cshift_arrow fshift_brace).
  - apply arrow_noteq; [apply name_not_kw_is; exact Hnm | apply lparen_head_nlp; exact Hgs].
  - apply (bgroups_no_acc LJavaScript _ _ (good_arrow LJavaScript)). exact Hgs.
Qed.

Lemma ar_no_function fk nm gs B : kw_is fk s_function = true -> is_name nm = true -> bgroups gs ->
  no_acc cand_arrow follow_brace (fk :: nm :: gs) B.
Proof.
  intros Hfk Hnm Hgs. apply (no_acc_cons _ _ cshift_arrow fshift_brace).
  - apply arrow_not_name; [apply (kw_is_other fk s_function); [exact Hfk | discriminate]
                          | apply keyword_not_name; eapply kw_is_keyword; exact Hfk].
  - apply ar_no_method; assumption.
Qed.

Lemma fn_no_arrow l f nm eq mid gs arrow B : good l cand_function f ->
  is_name nm = true -> is_operator eq s_eq = true ->
  (mid = [] \/ exists ak, mid = [ak] /\ kw_is ak s_async = true) ->
  bgroups gs -> is_symbol arrow s_arrow = true ->
  no_acc cand_function f (nm :: eq :: mid ++ gs ++ [arrow]) B.
Proof.
  intros G Hnm Heq Hmid Hgs Har.
  pose proof (g_f _ _ _ G) as Hf.
  apply (no_acc_cons _ _ cshift_function Hf).
  { apply function_not_lparen; [apply name_not_kw_is; exact Hnm|]. cbn [app hd_ok]. unfold nlp.
    unfold is_lparen. rewrite (operator_not_symbol _ _ _ Heq). reflexivity. }
  change (eq :: mid ++ gs ++ [arrow]) with ([eq] ++ mid ++ gs ++ [arrow]).
  apply (no_acc_app _ _ cshift_function Hf); [eapply (operator_no_acc l _ _ G); exact Heq|].
  apply (no_acc_app _ _ cshift_function Hf).
  { destruct Hmid as [->|(ak & -> & Hak)]; [apply no_acc_nil|].
    apply no_acc_single. apply function_not_name.
    - apply (kw_is_other ak s_async); [exact Hak | discriminate].
    - apply keyword_not_name. eapply kw_is_keyword; exact Hak. }
  apply (no_acc_app _ _ cshift_function Hf); [apply (bgroups_no_acc l _ _ G); exact Hgs|].
  eapply (symbol_no_acc l _ _ G). exact Har.
Qed.

Lemma fn_no_const f ck A B : fshift f -> kw_is ck s_const = true -> no_acc cand_function f A B ->
  no_acc cand_function f (ck :: A) B.
Proof.
  intros Hf Hck HA. apply (no_acc_cons _ _ cshift_function Hf); [|exact HA].
  apply function_not_name.
  - apply (kw_is_other ck s_const); [exact Hck | discriminate].
  - apply keyword_not_name. eapply kw_is_keyword; exact Hck.
Qed.

Theorem head_split_javascript :
  head_split any_tokens LJavaScript cand_function follow_brace cand_arrow follow_brace.
Proof.
  intros hd n h o B off Hhd _ Ho.
  destruct Hhd as [nm gs Hcf Hnm Hgs | nm gs thr clause HJ | nm gs Hjs Hnm Hgs | fk nm gs Hjs Hfk Hnm Hgs
                  | nm gs colon ty HT | fk nm gs colon ty HT
                  | nm eq gs arrow Hjs Hnm Heq Hgs Har | nm eq ak gs arrow Hjs Hnm Heq Hak Hgs Har
                  | ck nm eq gs arrow Hjs Hck Hnm Heq Hgs Har | ck nm eq ak gs arrow Hjs Hck Hnm Heq Hak Hgs Har];
    try discriminate.
  - (* name groups *)
    left. split.
    + apply (Seg_head_eq _ _ cshift_function fshift_brace off (nm :: gs) (o :: B) (nm :: gs ++ o :: B) 0 (S (length gs)));
        [apply method_head; assumption | reflexivity | reflexivity | reflexivity | lia].
    + apply (Seg_none _ _ cshift_arrow fshift_brace). apply ar_no_method; assumption.
  - (* function name groups *)
    left. split.
    + apply (Seg_head_eq _ _ cshift_function fshift_brace off (fk :: nm :: gs) (o :: B) (fk :: nm :: gs ++ o :: B) 1 (S (S (length gs))));
        [apply function_head; assumption | reflexivity | reflexivity | reflexivity | lia].
    + apply (Seg_none _ _ cshift_arrow fshift_brace). apply ar_no_function; assumption.
  - (* name = groups => *)
    right. split.
    + apply (Seg_none _ _ cshift_function fshift_brace).
      apply (fn_no_arrow LJavaScript follow_brace nm eq [] gs arrow _ (good_function LJavaScript)); auto.
    + apply (Seg_head_eq _ _ cshift_arrow fshift_brace off _ (o :: B) (nm :: eq :: [] ++ gs ++ arrow :: o :: B) 0
               (S (2 + length (@nil token) + length gs)));
        [apply arrow_head; auto | norm_app; reflexivity | norm_len; lia | norm_len; lia | lia].
  - (* name = async groups => *)
    right. split.
    + apply (Seg_none _ _ cshift_function fshift_brace).
      apply (fn_no_arrow LJavaScript follow_brace nm eq [ak] gs arrow _ (good_function LJavaScript)); eauto.
    + apply (Seg_head_eq _ _ cshift_arrow fshift_brace off _ (o :: B) (nm :: eq :: [ak] ++ gs ++ arrow :: o :: B) 0
               (S (2 + length [ak] + length gs)));
        [apply arrow_head; eauto | norm_app; reflexivity | norm_len; lia | norm_len; lia | lia].
  - (* const name = groups => *)
    right. split.
    + apply (Seg_none _ _ cshift_function fshift_brace). apply fn_no_const; [apply fshift_brace | exact Hck|].
      apply (fn_no_arrow LJavaScript follow_brace nm eq [] gs arrow _ (good_function LJavaScript)); auto.
    + apply (Seg_head_eq _ _ cshift_arrow fshift_brace off _ (o :: B) (ck :: nm :: eq :: [] ++ gs ++ arrow :: o :: B) 1
               (S (S (2 + length (@nil token) + length gs))));
        [apply const_arrow_head; auto | norm_app; reflexivity | norm_len; lia | norm_len; lia | lia].
  - (* const name = async groups => *)
    right. split.
    + apply (Seg_none _ _ cshift_function fshift_brace). apply fn_no_const; [apply fshift_brace | exact Hck|].
      apply (fn_no_arrow LJavaScript follow_brace nm eq [ak] gs arrow _ (good_function LJavaScript)); eauto.
    + apply (Seg_head_eq _ _ cshift_arrow fshift_brace off _ (o :: B) (ck :: nm :: eq :: [ak] ++ gs ++ arrow :: o :: B) 1
               (S (S (2 + length [ak] + length gs))));
        [apply const_arrow_head; eauto | norm_app; reflexivity | norm_len; lia | norm_len; lia | lia].
Qed.

(* ---------- the `new` / `record` rule drops no generated header ---------- *)
Definition drop_tok (t : token) : bool := kw_is t kw_record || kw_is t kw_new.
Definition last_ok (P : list token) : Prop := forall P' t, P = P' ++ [t] -> drop_tok t = false.

Lemma last_ok_nil : last_ok [].
Proof. intros P' t E. destruct P'; discriminate. Qed.

Lemma last_ok_snoc Q t : drop_tok t = false -> last_ok (Q ++ [t]).
Proof. intros H P' t' E. apply app_inj_tail in E as [_ <-]. exact H. Qed.

Lemma symbol_no_drop t s : is_symbol t s = true -> drop_tok t = false.
Proof. intros H. unfold drop_tok. rewrite !kw_is_not_keyword by (eapply symbol_not_keyword; exact H). reflexivity. Qed.

Lemma last_ok_prefix l P pre : last_ok P -> forallb (prefix_word l) pre = true -> last_ok (P ++ pre).
Proof.
  intros HP Hpre. destruct pre as [|p0 pre0] eqn:E; [rewrite app_nil_r; exact HP|]. rewrite <- E in *.
  assert (Hne : pre <> []) by (rewrite E; discriminate).
  destruct (exists_last Hne) as (pre' & p & ->). rewrite app_assoc. apply last_ok_snoc.
  rewrite forallb_app in Hpre. apply andb_prop in Hpre as [_ Hp]. cbn [forallb] in Hp. rewrite andb_true_r in Hp.
  apply prefix_word_inv in Hp as (_ & _ & H4 & H5 & _). unfold drop_tok. rewrite H4, H5. reflexivity.
Qed.

Lemma java_drop_last_ok Q R n e : last_ok Q -> java_drop (Q ++ R) (mkHeader n (length Q) e) = false.
Proof.
  intros HQ. unfold java_drop. cbn [h_start].
  destruct Q as [|q0 Q0] eqn:E; [reflexivity|]. rewrite <- E in *.
  assert (Hne : Q <> []) by (rewrite E; discriminate).
  destruct (exists_last Hne) as (Q' & t & ->).
  rewrite app_length. cbn [length]. rewrite Nat.add_1_r.
  rewrite <- app_assoc. rewrite nth_error_app2 by lia. rewrite Nat.sub_diag. cbn [app nth_error].
  exact (HQ Q' t eq_refl).
Qed.

Theorem citems_no_drop Pc Ph l off ts ds : citems Pc Ph l off ts ds ->
  forall P B, length P = off -> last_ok P -> Forall (fun d => java_drop (P ++ ts ++ B) (header_of d) = false) ds.
Proof.
  induction 1 as [off|off s r ds Hs Hr IH
                 |off kw words cond o body c r ds1 ds2 Hkw Hwords Hcond Hnt Ho Hc Hb IHb Hr IHr
                 |off kw colon r ds Hkw Hcolon Hr IH
                 |off o body c r ds1 ds2 Ho Hc Hb IHb Hr IHr
                 |off pre o flat c post semi r ds Hpre Ho Hflat Hc Hpost Hsemi Hr IH
                 |off a tail o body c post semi r ds1 ds2 Hjs Hane Hop Hlast Htail Ho Hc Hpost Hsemi Hb IHb Hr IHr
                 |off pre kn nm gs o body c post semi r ds1 ds2 Hl Hpre Hkn Hnm Hgs Ho Hc Hb IHb Hpost Hsemi Hr IHr
                 |off pre kn nm gs o body c post semi r ds1 ds2 Hl Hpre Hkn Hnm Hgs Ho Hc Hfl Eds Hpost Hsemi Hr IHr
                 |off pre hd nm_off hend_off o body c r ds1 ds2 Hpre Hhd HPh Ho Hc Hb IHb Hflat Hr IHr]; intros P B HP HL.
  - constructor.
  - replace (P ++ (s ++ r) ++ B) with ((P ++ s) ++ r ++ B) by (norm_app; reflexivity).
    apply IH; [norm_len; lia|]. destruct Hs as (body & semi & -> & _ & Hsemi).
    rewrite app_assoc. apply last_ok_snoc. eapply symbol_no_drop; exact Hsemi.
  - apply Forall_app. split.
    + replace (P ++ (kw :: words ++ cond ++ o :: body ++ c :: r) ++ B)
        with ((P ++ kw :: words ++ cond ++ [o]) ++ body ++ (c :: r ++ B)) by (norm_app; reflexivity).
      apply IHb; [norm_len; lia|].
      replace (P ++ kw :: words ++ cond ++ [o]) with ((P ++ kw :: words ++ cond) ++ [o]) by (norm_app; reflexivity).
      apply last_ok_snoc. eapply symbol_no_drop; exact Ho.
    + replace (P ++ (kw :: words ++ cond ++ o :: body ++ c :: r) ++ B)
        with ((P ++ kw :: words ++ cond ++ o :: body ++ [c]) ++ r ++ B) by (norm_app; reflexivity).
      apply IHr; [norm_len; lia|].
      replace (P ++ kw :: words ++ cond ++ o :: body ++ [c]) with ((P ++ kw :: words ++ cond ++ o :: body) ++ [c]) by (norm_app; reflexivity).
      apply last_ok_snoc. eapply symbol_no_drop; exact Hc.
  - replace (P ++ (kw :: colon :: r) ++ B) with ((P ++ [kw; colon]) ++ r ++ B) by (norm_app; reflexivity).
    apply IH; [norm_len; lia|].
    replace (P ++ [kw; colon]) with ((P ++ [kw]) ++ [colon]) by (norm_app; reflexivity).
    apply last_ok_snoc. unfold drop_tok. rewrite !kw_is_not_keyword by (eapply operator_not_keyword; exact Hcolon). reflexivity.
  - apply Forall_app. split.
    + replace (P ++ (o :: body ++ c :: r) ++ B) with ((P ++ [o]) ++ body ++ (c :: r ++ B)) by (norm_app; reflexivity).
      apply IHb; [norm_len; lia|]. apply last_ok_snoc. eapply symbol_no_drop; exact Ho.
    + replace (P ++ (o :: body ++ c :: r) ++ B) with ((P ++ o :: body ++ [c]) ++ r ++ B) by (norm_app; reflexivity).
      apply IHr; [norm_len; lia|].
      replace (P ++ o :: body ++ [c]) with ((P ++ o :: body) ++ [c]) by (norm_app; reflexivity).
      apply last_ok_snoc. eapply symbol_no_drop; exact Hc.
  - replace (P ++ (pre ++ o :: flat ++ c :: post ++ semi :: r) ++ B)
      with ((P ++ pre ++ o :: flat ++ c :: post ++ [semi]) ++ r ++ B) by (norm_app; reflexivity).
    apply IH; [norm_len; lia|].
    replace (P ++ pre ++ o :: flat ++ c :: post ++ [semi]) with ((P ++ pre ++ o :: flat ++ c :: post) ++ [semi])
      by (norm_app; reflexivity).
    apply last_ok_snoc. eapply symbol_no_drop; exact Hsemi.
  - apply Forall_app. split.
    + replace (P ++ (a ++ tail ++ o :: body ++ c :: post ++ semi :: r) ++ B)
        with ((P ++ a ++ tail ++ [o]) ++ body ++ (c :: post ++ semi :: r ++ B)) by (norm_app; reflexivity).
      apply IHb; [norm_len; lia|].
      replace (P ++ a ++ tail ++ [o]) with ((P ++ a ++ tail) ++ [o]) by (norm_app; reflexivity).
      apply last_ok_snoc. eapply symbol_no_drop; exact Ho.
    + replace (P ++ (a ++ tail ++ o :: body ++ c :: post ++ semi :: r) ++ B)
        with ((P ++ a ++ tail ++ o :: body ++ c :: post ++ [semi]) ++ r ++ B) by (norm_app; reflexivity).
      apply IHr; [norm_len; lia|].
      replace (P ++ a ++ tail ++ o :: body ++ c :: post ++ [semi]) with ((P ++ a ++ tail ++ o :: body ++ c :: post) ++ [semi])
        by (norm_app; reflexivity).
      apply last_ok_snoc. eapply symbol_no_drop; exact Hsemi.
  - apply Forall_app. split.
    + replace (P ++ (pre ++ kn :: nm :: gs ++ o :: body ++ c :: post ++ semi :: r) ++ B)
        with ((P ++ pre ++ kn :: nm :: gs ++ [o]) ++ body ++ (c :: post ++ semi :: r ++ B)) by (norm_app; reflexivity).
      apply IHb; [norm_len; lia|].
      replace (P ++ pre ++ kn :: nm :: gs ++ [o]) with ((P ++ pre ++ kn :: nm :: gs) ++ [o]) by (norm_app; reflexivity).
      apply last_ok_snoc. eapply symbol_no_drop; exact Ho.
    + replace (P ++ (pre ++ kn :: nm :: gs ++ o :: body ++ c :: post ++ semi :: r) ++ B)
        with ((P ++ pre ++ kn :: nm :: gs ++ o :: body ++ c :: post ++ [semi]) ++ r ++ B) by (norm_app; reflexivity).
      apply IHr; [norm_len; lia|].
      replace (P ++ pre ++ kn :: nm :: gs ++ o :: body ++ c :: post ++ [semi]) with ((P ++ pre ++ kn :: nm :: gs ++ o :: body ++ c :: post) ++ [semi])
        by (norm_app; reflexivity).
      apply last_ok_snoc. eapply symbol_no_drop; exact Hsemi.
  - subst ds1. cbn [app].
    replace (P ++ (pre ++ kn :: nm :: gs ++ o :: body ++ c :: post ++ semi :: r) ++ B)
      with ((P ++ pre ++ kn :: nm :: gs ++ o :: body ++ c :: post ++ [semi]) ++ r ++ B) by (norm_app; reflexivity).
    apply IHr; [norm_len; lia|].
    replace (P ++ pre ++ kn :: nm :: gs ++ o :: body ++ c :: post ++ [semi]) with ((P ++ pre ++ kn :: nm :: gs ++ o :: body ++ c :: post) ++ [semi])
      by (norm_app; reflexivity).
    apply last_ok_snoc. eapply symbol_no_drop; exact Hsemi.
  - constructor; [|apply Forall_app; split].
    + unfold header_of. cbn [fd_name fd_start fd_hend].
      replace (P ++ (pre ++ hd ++ o :: body ++ c :: r) ++ B)
        with ((P ++ pre) ++ (hd ++ o :: body ++ c :: r ++ B)) by (norm_app; reflexivity).
      replace (off + length pre) with (length (P ++ pre)) by (norm_len; lia).
      apply java_drop_last_ok. eapply last_ok_prefix; eassumption.
    + replace (P ++ (pre ++ hd ++ o :: body ++ c :: r) ++ B)
        with ((P ++ pre ++ hd ++ [o]) ++ body ++ (c :: r ++ B)) by (norm_app; reflexivity).
      apply IHb; [norm_len; lia|].
      replace (P ++ pre ++ hd ++ [o]) with ((P ++ pre ++ hd) ++ [o]) by (norm_app; reflexivity).
      apply last_ok_snoc. eapply symbol_no_drop; exact Ho.
    + replace (P ++ (pre ++ hd ++ o :: body ++ c :: r) ++ B)
        with ((P ++ pre ++ hd ++ o :: body ++ [c]) ++ r ++ B) by (norm_app; reflexivity).
      apply IHr; [norm_len; lia|].
      replace (P ++ pre ++ hd ++ o :: body ++ [c]) with ((P ++ pre ++ hd ++ o :: body) ++ [c]) by (norm_app; reflexivity).
      apply last_ok_snoc. eapply symbol_no_drop; exact Hc.
Qed.

Lemma filter_all {A} (p : A -> bool) l : (forall x, In x l -> p x = true) -> filter p l = l.
Proof.
  induction l as [|x l IH]; intros H; [reflexivity|].
  cbn [filter]. rewrite (H x) by (left; reflexivity). f_equal. apply IH. intros y Hy. apply H. right. exact Hy.
Qed.

(* a selection that is a permutation of the generated headers is not changed by the rule *)
Theorem canonical_no_drop Pc Ph l ts ds hs : citems Pc Ph l 0 ts ds -> Permutation hs (map header_of ds) ->
  filter (fun h => negb (java_drop ts h)) hs = hs.
Proof.
  intros H HP. apply filter_all. intros h Hh.
  apply (Permutation_in _ HP) in Hh. apply in_map_iff in Hh as (d & <- & Hd).
  pose proof (citems_no_drop Pc Ph l 0 ts ds H [] [] eq_refl last_ok_nil) as HF.
  cbn [app] in HF. rewrite app_nil_r in HF. rewrite Forall_forall in HF. rewrite (HF d Hd). reflexivity.
Qed.

(* ---------- the `new` rule drops exactly the headers of the `new Name (…) {` statements ---------- *)
Lemma filter_perm {A} (p : A -> bool) l l' : Permutation l l' -> Permutation (filter p l) (filter p l').
Proof.
  induction 1 as [|x l l' H IH|x y l|l l' l'' H1 IH1 H2 IH2]; cbn [filter].
  - constructor.
  - destruct (p x); [apply perm_skip|]; exact IH.
  - destruct (p x), (p y); try apply Permutation_refl. apply perm_swap.
  - eapply Permutation_trans; eassumption.
Qed.

Lemma filter_none {A} (p : A -> bool) l : (forall x, In x l -> p x = false) -> filter p l = [].
Proof.
  induction l as [|x l IH]; intros H; [reflexivity|].
  cbn [filter]. rewrite (H x) by (left; reflexivity). apply IH. intros y Hy. apply H. right. exact Hy.
Qed.

Theorem canonical_filtered Pc Ph l ts ds hs xs : citems Pc Ph l 0 ts ds ->
  Permutation hs (map header_of ds ++ xs) -> Forall (newhdr 0 ts) xs ->
  Permutation (filter (fun h => negb (java_drop ts h)) hs) (map header_of ds).
Proof.
  intros H HP HX. eapply Permutation_trans; [apply filter_perm; exact HP|].
  rewrite filter_app. rewrite (canonical_no_drop Pc Ph l ts ds (map header_of ds) H (Permutation_refl _)).
  rewrite filter_none; [rewrite app_nil_r; apply Permutation_refl|].
  intros x Hx. rewrite Forall_forall in HX. rewrite (newhdr_dropped ts x (HX x Hx)). reflexivity.
Qed.

(* the front `pre new Name (…)` of such a statement under the C-family candidate *)
Lemma new_front_no_acc f pre kn R : fshift f -> forallb plain pre = true -> is_keyword kn = true -> hd_ok nlp R ->
  no_acc cand_plain f (pre ++ [kn]) R.
Proof.
  intros Hf Hpre Hkn HR. induction pre as [|p pre IH].
  - apply no_acc_single. apply plain_not_name. apply keyword_not_name. exact Hkn.
  - cbn [forallb] in Hpre. apply andb_prop in Hpre as [Hp Hpre]. cbn [app].
    apply (no_acc_cons _ _ cshift_plain Hf); [|apply IH; exact Hpre].
    apply plain_not_lparen. destruct pre as [|q pre].
    + cbn [app hd_ok]. unfold nlp, is_lparen. rewrite (keyword_not_symbol _ _ Hkn). reflexivity.
    + cbn [app hd_ok]. cbn [forallb] in Hpre. apply andb_prop in Hpre as [Hq _]. apply plain_nlp. exact Hq.
Qed.

Lemma new_front_seg f off pre kn nm gs o B : fshift f ->
  forallb plain pre = true -> kw_is kn kw_new = true -> is_name nm = true -> groups gs -> is_lbrace o = true ->
  acc cand_plain f (nm :: gs ++ o :: B) 0 = Some (0, S (length gs)) ->
  Seg cand_plain f off (pre ++ kn :: nm :: gs) (o :: B)
      [mkHeader (off + length pre + 1) (off + length pre + 1) (off + length pre + 2 + length gs)].
Proof.
  intros Hf Hpre Hkn Hnm Hgs Ho Hacc.
  replace (pre ++ kn :: nm :: gs) with ((pre ++ [kn]) ++ nm :: gs) by (norm_app; reflexivity).
  change [mkHeader (off + length pre + 1) (off + length pre + 1) (off + length pre + 2 + length gs)]
    with ([] ++ [mkHeader (off + length pre + 1) (off + length pre + 1) (off + length pre + 2 + length gs)]).
  apply Seg_app.
  - apply (Seg_none _ _ cshift_plain Hf). apply new_front_no_acc; [exact Hf | exact Hpre | eapply kw_is_keyword; exact Hkn|].
    cbn [app hd_ok]. unfold nlp, is_lparen. rewrite (name_not_symbol _ _ Hnm). reflexivity.
  - replace (off + length (pre ++ [kn])) with (off + length pre + 1) by (norm_len; lia).
    pose proof (Seg_head_eq _ _ cshift_plain Hf (off + length pre + 1) (nm :: gs) (o :: B) (nm :: gs ++ o :: B) 0 (S (length gs))
                  (S (length gs)) Hacc eq_refl eq_refl eq_refl (Nat.lt_0_succ _)) as HS.
    replace (off + length pre + 1 + 0) with (off + length pre + 1) in HS by lia.
    replace (off + length pre + 1 + S (length gs)) with (off + length pre + 2 + length gs) in HS by lia. exact HS.
Qed.

Theorem new_split_cfamily l : new_split l cand_plain follow_brace cand_never follow_brace.
Proof.
  intros pre kn nm gs o B off _ Hpre Hkn Hnm Hgs Ho. split; [|apply Seg_never].
  apply new_front_seg; try assumption; [apply fshift_brace | apply plain_head; assumption].
Qed.

Theorem new_split_none l c1 f1 c2 f2 : l <> LJava -> l <> LCSharp -> new_split l c1 f1 c2 f2.
Proof. intros H1 H2 pre kn nm gs o B off [E|E]; congruence. Qed.
