(* NfaShape.v — a canonical encoding of the automaton expression_to_nfa builds (the states reachable
   from the start state, numbered in depth-first order of first visit: epsilon edges first, then the
   labelled transitions, each in list order), used to compare the STRUCTURE of the implementation's
   NFA with the model's on every small expression — a construction change that happens to preserve
   the language on small inputs still changes the shape. *)
From Verif Require Import Base Regex Nfa.
Open Scope Z_scope.

Section Shape.
  Fixpoint visit (fuel : nat) (h : @heap Z) (n : nat) (seen : list nat) : list nat :=
    match fuel with
    | O => seen
    | S f =>
        if mem n seen then seen
        else fold_left (fun acc m => visit f h m acc)
                       (neps (get h n) ++ map snd (ntrans (get h n))) (seen ++ [n])
    end.
  Fixpoint index_in (n : nat) (l : list nat) (i : Z) : Z :=
    match l with [] => -1 | x :: r => if Nat.eqb n x then i else index_in n r (i + 1) end.
  Definition nfa_shape (e : expr Z) : tree :=
    match expression_to_nfa e with
    | Err k => T [L 1; L (errcode k)]
    | OK (h, (s, a)) =>
        let order := visit (S (length h)) h s [] in
        let ix := fun n => L (index_in n order 0) in
        T [L 0; ix a;
           T (map (fun n => T [T (map ix (neps (get h n)));
                               T (map (fun pt : Z * nat => T [L (fst pt); ix (snd pt)]) (ntrans (get h n)))]) order)]
    end.
End Shape.
