(* LexShapes.v — lexical specification of where the header patterns of Java,
   JavaScript, TypeScript and Python apply in a token stream, independent of the
   matcher (continuation of HeaderSpec.v, which covers the C family).  Each pattern
   is described by (a) a candidate function: from a start position, the index of the
   name token and the end of the header shape, and (b) a follow-up test at that end. *)
From Verif Require Import Base Regex Token TokEngine Headers Blocks Spec HeaderSpec.
Open Scope Z_scope.

Definition kw_at (ts : list token) (i : nat) (s : pystr) : bool :=
  match nth_error ts i with Some t => is_keyword t && pystr_eqb (t_value t) s | None => false end.
Definition name_at (ts : list token) (i : nat) : bool :=
  match nth_error ts i with Some t => is_name t | None => false end.
Definition op_at (ts : list token) (i : nat) (s : pystr) : bool :=
  match nth_error ts i with Some t => is_operator t s | None => false end.

(* "(" at p, and the end (exclusive) of the maximal run of parenthesis groups starting there *)
Definition groups_end (ts : list token) (p : nat) : option nat :=
  if sym_at ts p lparen then Some (p + groups_len (skipn p ts) 0)%nat else None.

Definition s_function : pystr := [102; 117; 110; 99; 116; 105; 111; 110].
Definition s_const : pystr := [99; 111; 110; 115; 116].
Definition s_async : pystr := [97; 115; 121; 110; 99].
Definition s_def : pystr := [100; 101; 102].
Definition s_throws : pystr := [116; 104; 114; 111; 119; 115].
Definition s_eq : pystr := [61].
Definition s_arrow : pystr := [61; 62].
Definition s_colon : pystr := [58].
Definition s_semi : pystr := [59].

(* candidate = (name index, end) *)
Definition cand_fn := list token -> nat -> option (nat * nat).

(* identifier ( ... )          — Java *)
Definition cand_plain : cand_fn := fun ts i =>
  if name_at ts i then match groups_end ts (S i) with Some j => Some (i, j) | None => None end else None.

(* [function] identifier ( ... )          — JavaScript / TypeScript, first pattern *)
Definition cand_function : cand_fn := fun ts i =>
  let n := if kw_at ts i s_function then S i else i in
  if name_at ts n then match groups_end ts (S n) with Some j => Some (n, j) | None => None end else None.

(* [const] identifier = [async] ( ... ) =>          — JavaScript / TypeScript, second pattern *)
Definition cand_arrow : cand_fn := fun ts i =>
  let n := if kw_at ts i s_const then S i else i in
  if name_at ts n && op_at ts (S n) s_eq then
    let p := if kw_at ts (S (S n)) s_async then S (S (S n)) else S (S n) in
    match groups_end ts p with
    | Some j => if sym_at ts j s_arrow then Some (n, S j) else None
    | None => None
    end
  else None.

(* [async] def identifier ( ... )          — Python *)
Definition cand_def : cand_fn := fun ts i =>
  let d := if kw_at ts i s_async then S i else i in
  if kw_at ts d s_def && name_at ts (S d) then
    match groups_end ts (S (S d)) with Some j => Some (S d, j) | None => None end
  else None.

(* follow-up tests at the end of a candidate *)
Definition follow_fn := list token -> nat -> bool.
Definition follow_any : follow_fn := fun _ _ => true.
Definition follow_brace : follow_fn := fun ts j => sym_at ts j lbrace.
(* the first token whose text is "{" or ";" is the symbol "{" *)
Fixpoint until_brace (ts : list token) : bool :=
  match ts with
  | [] => false
  | t :: r => if pystr_eqb (t_value t) lbrace then is_symbol t lbrace
              else if pystr_eqb (t_value t) s_semi then false else until_brace r
  end.
Definition follow_throws : follow_fn := fun ts j =>
  sym_at ts j lbrace || (kw_at ts j s_throws && until_brace (skipn (S j) ts)).
(* a TypeScript return type (GD26): balanced parenthesis groups (function types) and tokens whose text is none of
   ";" "{" "(" ")", up to the symbol "{"; depth = nesting inside a group, where every token is consumed *)
Fixpoint until_brace_type (ts : list token) (depth : Z) : bool :=
  match ts with
  | [] => false
  | t :: r =>
      if 0 <? depth then
        (if is_symbol t lparen then until_brace_type r (depth + 1)
         else if is_symbol t rparen then until_brace_type r (depth - 1)
         else until_brace_type r depth)
      else if is_symbol t lparen then until_brace_type r 1
      else if is_symbol t lbrace then true
      else if pystr_eqb (t_value t) lbrace || pystr_eqb (t_value t) s_semi
              || pystr_eqb (t_value t) lparen || pystr_eqb (t_value t) rparen then false
      else until_brace_type r 0
  end.
Definition follow_rettype : follow_fn := fun ts j =>
  sym_at ts j lbrace || (op_at ts j s_colon && until_brace_type (skipn (S j) ts) 0).

(* leftmost non-overlapping selection of the accepted candidates, in start order *)
Fixpoint select_shape (c : cand_fn) (f : follow_fn) (ts : list token) (positions : list nat) (last_end : nat) : list header :=
  match positions with
  | [] => []
  | i :: r =>
      match c ts i with
      | Some (n, j) => if f ts j && Nat.leb last_end i then mkHeader n i j :: select_shape c f ts r j
                       else select_shape c f ts r last_end
      | None => select_shape c f ts r last_end
      end
  end.
Definition shape_headers (c : cand_fn) (f : follow_fn) (ts : list token) : list header :=
  select_shape c f ts (seq O (length ts)) O.

Definition lexical_headers_Java (ts : list token) : list header :=
  filter (fun h => negb (java_drop ts h)) (shape_headers cand_plain follow_throws ts).
Definition lexical_headers_JavaScript (ts : list token) : list header :=
  shape_headers cand_function follow_brace ts ++ shape_headers cand_arrow follow_brace ts.
Definition lexical_headers_TypeScript (ts : list token) : list header :=
  shape_headers cand_function follow_rettype ts ++ shape_headers cand_arrow follow_brace ts.
Definition lexical_headers_Python (ts : list token) : list header :=
  shape_headers cand_def follow_any ts.
Definition lexical_headers_CSharp (ts : list token) : list header :=
  filter (fun h => negb (java_drop ts h)) (lexical_headers ts).

Definition lexical_headers_of (l : language) (ts : list token) : list header :=
  match l with
  | LC | LCpp => lexical_headers ts
  | LCSharp => lexical_headers_CSharp ts
  | LJava => lexical_headers_Java ts
  | LJavaScript => lexical_headers_JavaScript ts
  | LTypeScript => lexical_headers_TypeScript ts
  | LPython => lexical_headers_Python ts
  end.
