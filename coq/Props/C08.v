(* C08 — the report document is always valid JSON and round-trips losslessly.
   Statements only; proofs in Report/JsonProofs.v, Report/WriterProofs.v over the
   models Report/Json.v (layout of ReportWriter, token-level parser) and
   Report/Writer.v (to_json, from_json).  Strings are abstract tokens rendered by
   the json.dumps oracle; the writer model is compared with the implementation's
   text byte for byte on every run. *)
From Verif Require Import Base GenThresholds Codebase Json Writer JsonProofs WriterProofs.
Open Scope Z_scope.

(* every document is well-formed, in both layouts, and both parse to the same value *)
Theorem C08_valid : forall (pretty : bool) (r : report), parse (to_json pretty r) = Some (erase (to_doc r)).
Proof. intros pretty r. exact (parse_render pretty (to_doc r)). Qed.
Theorem C08_pretty_compact_same : forall r, parse (to_json true r) = parse (to_json false r).
Proof. intros r. exact (pretty_compact_same (to_doc r)). Qed.
Theorem C08_layout_is_blanks : forall b d s, In (TWs s) (render b d) -> Forall (fun c => c = 32 \/ c = 10) s.
Proof. exact render_ws_only_blanks. Qed.

(* reading the written document back: same version, identifier, repository, and the same codebase
   (files in order with checksum, language, line total, measurements; totals; folder profiles) *)
Theorem C08_roundtrip : forall root es cb r,
  build root es = OK cb ->
  Forall (fun e => e = mk_entry (e_path e) (e_checksum e) (e_language e) (e_loc e) (e_measurements e)) es ->
  NoDup (map e_path es) -> r_codebase r = cb ->
  forall b v, parse (to_json b r) = Some v ->
  from_json v = OK (mkReport (r_version r) (r_uuid r) [] (r_repository r) cb).
Proof. exact WriterProofs.C08_roundtrip. Qed.

(* writing the re-read report reproduces the document up to its timestamp (any layouts) *)
Theorem C08_rewrite : forall root es cb r,
  build root es = OK cb ->
  Forall (fun e => e = mk_entry (e_path e) (e_checksum e) (e_language e) (e_loc e) (e_measurements e)) es ->
  NoDup (map e_path es) -> r_codebase r = cb ->
  forall b v r', parse (to_json b r) = Some v -> from_json v = OK r' ->
  forall b', to_json b' (with_timestamp (r_timestamp r) r') = to_json b' r.
Proof. exact WriterProofs.C08_rewrite. Qed.

(* the stored version is what get_report_version returns (presence / absence included) *)
Theorem C08_version : forall r, get_report_version (erase (to_doc r)) = OK (r_version r).
Proof. exact WriterProofs.C08_version. Qed.

Print Assumptions C08_valid.
Print Assumptions C08_pretty_compact_same.
Print Assumptions C08_layout_is_blanks.
Print Assumptions C08_roundtrip.
Print Assumptions C08_rewrite.
Print Assumptions C08_version.
