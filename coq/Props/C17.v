(* C17 — the suppression marker removes exactly the marked function.
   Statements only; proofs in Scope/MarkerProofs{Text,Fold,Nonint}.v. *)
From Verif Require Import Base Token Lex Headers Blocks Pairing Fold ScanFile
  MarkerProofsText MarkerProofsFold MarkerProofsNonint.
Open Scope Z_scope.

(* what counts as a marker: after the comment leader #, ;, // or /* and optional white space the
   comment begins with "nocl", case-insensitively (or begins with it outright) *)
Theorem C17_marker_text : forall v, is_nocl_text v = true <-> marker_shape (lower v).
Proof. exact MarkerProofsText.C17_marker_text. Qed.
Theorem C17_marker_token : forall t,
  is_nocl_token t = true <-> is_comment t = true /\ marker_shape (lower (t_value t)).
Proof. exact MarkerProofsText.C17_marker_token. Qed.
Theorem C17_case_insensitive : forall v, is_nocl_text v = is_nocl_text (lower v).
Proof. exact MarkerProofsText.C17_case_insensitive. Qed.
Theorem C17_mention_is_not_marker : ~ marker_shape ex_mention.      (* "# see nocl below" *)
Proof. exact MarkerProofsText.C17_mention_is_not_marker. Qed.

(* a candidate function is reported iff no marker comment sits on the line of its name *)
Theorem C17_reported_iff : forall l toks headers blocks scs s,
  lang_nested l = true ->
  let code := filter_tokens false toks in
  extract_headers l code = OK headers -> extract_blocks l code headers = OK blocks ->
  build_scopes l toks = OK scs ->
  (In s (map fst scs) <->
   In s (build_scopes_from code headers blocks) /\
   ~ exists t, In t toks /\ is_nocl_token t = true /\ t_line t = tok_line code (h_name (s_header s))).
Proof. exact MarkerProofsFold.C17_reported_iff. Qed.

(* the reported list is, in order, the candidate list minus the marked ones (pre-order of the
   nesting forest is the insertion order) *)
Theorem C17_order_preserved : forall l, map fst (unfold_scopes (fold_scopes l)) = l.
Proof. exact unfold_fold_fst. Qed.

(* non-interference: adding the marker to a function s that neither encloses nor is nested in
   another reported function leaves every other measurement unchanged and removes exactly s *)
Theorem C17_noninterference : forall l toks toks' ln l1 s l2 scs ms,
  lang_nested l = true ->
  filter_tokens false toks' = filter_tokens false toks ->                      (* same code tokens *)
  (forall z, In z (marker_lines toks') <-> z = ln \/ In z (marker_lines toks)) ->   (* one more marked line *)
  build_scopes l toks = OK scs -> map fst scs = l1 ++ s :: l2 ->
  name_line (filter_tokens false toks) s = ln ->
  (forall x, In x (l1 ++ l2) -> name_line (filter_tokens false toks) x <> ln) ->
  starts_increasing (l1 ++ s :: l2) -> unrelated s (l1 ++ l2) ->
  scan_file l toks = OK ms ->
  exists ms1 m ms2,
    ms = ms1 ++ m :: ms2 /\ length ms1 = length l1 /\ length ms2 = length l2 /\
    measure (filter_tokens false toks) (s, []) = OK m /\
    scan_file l toks' = OK (ms1 ++ ms2).
Proof. exact C17_mark_one_function_scan. Qed.

Print Assumptions C17_marker_text.
Print Assumptions C17_marker_token.
Print Assumptions C17_case_insensitive.
Print Assumptions C17_mention_is_not_marker.
Print Assumptions C17_reported_iff.
Print Assumptions C17_order_preserved.
Print Assumptions C17_noninterference.

Example C17_examples :
  is_nocl_text [35; 32; 78; 79; 67; 76] = true /\            (* "# NOCL" *)
  is_nocl_text [47; 42; 110; 111; 99; 108; 32; 42; 47] = true /\   (* "/*nocl */" *)
  is_nocl_text [47; 47; 32; 115; 101; 101; 32; 110; 111; 99; 108] = false.   (* "// see nocl" *)
Proof. vm_compute. repeat split. Qed.
