(* PySpecProofsLines.v — C01 for Python, part 1: the token lines (without
   continuation tokens) and the block that Python.extract_blocks computes for
   a header whose suite is described by a well-shaped descriptor. *)
From Verif Require Import Base Token Lex Headers Blocks Pairing Fold ScanFile Spec PySpec.
From Verif Require Import LexProofs TotalProofsBlocks WfProofsBase WfProofsBlocks WfProofsPairing.
From Coq Require Import Sorted Permutation.
Open Scope nat_scope.

(* ====================================================================== *)
(* 0. vocabulary                                                           *)
(* ====================================================================== *)

Definition nocont (ts : list token) : Prop :=
  Forall (fun t => ends_with_str [92%Z; 10%Z] (t_value t) = false) ts.

(* k is the first token of its physical line *)
Definition lstart (code : list token) (k : nat) : Prop :=
  match k with O => True | S k' => tok_line code k' <> tok_line code k end.

Lemma lfi_start code k : lstart code k -> line_first_index code k = k.
Proof.
  destruct k as [|k]; cbn [line_first_index lstart]; [reflexivity|].
  intros H. apply Z.eqb_neq in H. rewrite H. reflexivity.
Qed.

(* ts occurs in code at offset i *)
Definition embedded (code ts : list token) (i : nat) : Prop :=
  forall j t, nth_error ts j = Some t -> nth_error code (i + j) = Some t.

Lemma embedded_tl code t r i : embedded code (t :: r) i -> embedded code r (S i).
Proof. intros H j x Hj. replace (S i + j) with (i + S j) by lia. apply H. exact Hj. Qed.

Lemma embedded_hd code t r i : embedded code (t :: r) i -> tok_line code i = t_line t.
Proof.
  intros H. specialize (H 0 t eq_refl). rewrite Nat.add_0_r in H.
  unfold tok_line. rewrite H. reflexivity.
Qed.

Lemma embedded_app1 c1 c2 : embedded (c1 ++ c2) c1 0.
Proof.
  intros j t H. cbn [plus]. rewrite nth_error_app1; [exact H|].
  apply nth_error_Some. congruence.
Qed.

Lemma embedded_app2 code c1 c2 i : embedded code (c1 ++ c2) i -> embedded code c2 (i + length c1).
Proof.
  intros H j t Hj. rewrite <- Nat.add_assoc. apply H.
  rewrite nth_error_app2 by lia. replace (length c1 + j - length c1) with j by lia. exact Hj.
Qed.

Lemma embedded_app1' code c1 c2 i : embedded code (c1 ++ c2) i -> embedded code c1 i.
Proof.
  intros H j t Hj. apply H. rewrite nth_error_app1; [exact Hj|].
  apply nth_error_Some. congruence.
Qed.

Lemma embedded_refl code : embedded code code 0.
Proof. intros j t H. exact H. Qed.

Lemma last_indep {A} : forall (l : list A) d d', l <> [] -> last l d = last l d'.
Proof.
  induction l as [|x l IH]; intros d d' H; [congruence|].
  destruct l as [|y l]; [reflexivity|]. change (last (y :: l) d = last (y :: l) d'). apply IH. discriminate.
Qed.

Lemma last_cons {A} (a : A) l d : last (a :: l) d = last l a.
Proof.
  destruct l as [|y l]; [reflexivity|]. change (last (y :: l) d = last (y :: l) a).
  apply last_indep. discriminate.
Qed.

Lemma embedded_last code : forall ts i d, embedded code ts i -> ts <> [] ->
  last (map t_line ts) d = tok_line code (i + length ts - 1).
Proof.
  induction ts as [|t r IH]; intros i d He Hne; [congruence|].
  cbn [map]. rewrite last_cons. destruct r as [|t' r'].
  - cbn [map last length]. replace (i + 1 - 1) with i by lia. symmetry. eapply embedded_hd. exact He.
  - rewrite (IH (S i)); [|eapply embedded_tl; exact He|discriminate].
    cbn [length]. f_equal. lia.
Qed.

(* ====================================================================== *)
(* 1. token lines without continuation tokens                              *)
(* ====================================================================== *)

Lemma tlf_z i ts c z z' : token_lines_from i ts [] c z = token_lines_from i ts [] c z'.
Proof. destruct ts; reflexivity. Qed.

(* a line in progress *)
Lemma tlf_F code : forall ts i i' line nr,
  line <> [] -> embedded code ts i -> nocont ts -> i = S i' -> nr = tok_line code i' ->
  (forall k, In k line -> line_first_index code k = hd 0 line) -> In i' line ->
  exists l0 R, token_lines_from i ts line false nr = (line ++ l0) :: R /\
    l0 ++ concat R = seq i (length ts) /\
    (forall k, In k (line ++ l0) -> line_first_index code k = hd 0 line) /\
    Forall (fun L => L <> [] /\ lstart code (hd 0 L) /\
                     forall k, In k L -> line_first_index code k = hd 0 L) R.
Proof.
  induction ts as [|t r IH]; intros i i' line nr Hne Hemb Hnc Hi Hnr Hlf Hin.
  - cbn [token_lines_from]. destruct line; [congruence|]. exists [], [].
    rewrite app_nil_r. repeat split; [exact Hlf | constructor].
  - cbn [token_lines_from]. destruct line as [|x line']; [congruence|]. set (line := x :: line') in *.
    inversion Hnc as [|? ? Hc Hnc']. subst.
    pose proof (embedded_hd _ _ _ _ Hemb) as Eh.
    pose proof (embedded_tl _ _ _ _ Hemb) as Et.
    destruct (Z.eqb (t_line t) (tok_line code i')) eqn:E.
    + rewrite Hc. apply Z.eqb_eq in E.
      assert (Hlfi : line_first_index code (S i') = hd 0 line).
      { cbn [line_first_index]. rewrite Eh, E, Z.eqb_refl. apply Hlf, Hin. }
      destruct (IH (S (S i')) (S i') (line ++ [S i']) (tok_line code i')) as (l0 & R & E1 & E2 & E3 & E4).
      * unfold line. discriminate.
      * exact Et.
      * exact Hnc'.
      * reflexivity.
      * congruence.
      * intros k Hk. apply in_app_or in Hk. destruct Hk as [Hk|[<-|[]]].
        -- rewrite (Hlf k Hk). reflexivity.
        -- rewrite Hlfi. reflexivity.
      * apply in_or_app. right. left. reflexivity.
      * exists (S i' :: l0), R. split; [rewrite E1, <- app_assoc; reflexivity|].
        split; [cbn [app length seq]; f_equal; exact E2|].
        split; [|exact E4]. intros k Hk. rewrite <- app_assoc in E3. cbn [app] in E3.
        specialize (E3 k). cbn [app] in Hk. rewrite E3; [reflexivity|].
        exact Hk.
    + apply Z.eqb_neq in E.
      destruct (IH (S (S i')) (S i') [S i'] (t_line t)) as (l0 & R & E1 & E2 & E3 & E4).
      * discriminate.
      * exact Et.
      * exact Hnc'.
      * reflexivity.
      * congruence.
      * intros k [<-|[]]. cbn [hd]. apply lfi_start. cbn [lstart]. congruence.
      * left. reflexivity.
      * exists [], ((S i' :: l0) :: R). rewrite app_nil_r.
        split; [f_equal; exact E1|].
        split; [cbn [app concat length seq]; f_equal; exact E2|].
        split; [exact Hlf|]. constructor; [|exact E4].
        split; [discriminate|]. split; [cbn [hd lstart]; congruence | exact E3].
Qed.

Definition line_ok (code : list token) (L : list nat) : Prop :=
  L <> [] /\ lstart code (hd 0 L) /\ forall k, In k L -> line_first_index code k = hd 0 L.

(* the lines of a segment that starts at a line start *)
Lemma tlf_G code ts i z : embedded code ts i -> nocont ts -> lstart code i ->
  concat (token_lines_from i ts [] false z) = seq i (length ts) /\
  Forall (line_ok code) (token_lines_from i ts [] false z) /\
  (ts <> [] -> exists l0 R, token_lines_from i ts [] false z = (i :: l0) :: R).
Proof.
  intros He Hnc Hs. destruct ts as [|t r].
  - cbn. split; [reflexivity|]. split; [constructor | congruence].
  - cbn [token_lines_from]. inversion Hnc as [|? ? Hc Hnc']; subst.
    destruct (tlf_F code r (S i) i [i] (t_line t)) as (l0 & R & E1 & E2 & E3 & E4).
    + discriminate.
    + eapply embedded_tl; exact He.
    + exact Hnc'.
    + reflexivity.
    + symmetry. eapply embedded_hd; exact He.
    + intros k [<-|[]]. apply lfi_start, Hs.
    + left; reflexivity.
    + rewrite E1. cbn [app concat length seq]. split; [f_equal; exact E2|]. split.
      * constructor; [|exact E4]. split; [discriminate|]. split; [exact Hs | exact E3].
      * intros _. exists l0, R. reflexivity.
Qed.

(* deliverable 1 *)
Theorem token_lines_spec code : nocont code ->
  concat (token_lines code) = seq 0 (length code) /\
  Forall (fun L => L <> [] /\ lstart code (hd 0 L) /\
                   forall k, In k L -> line_first_index code k = hd 0 L) (token_lines code).
Proof.
  intros Hnc. destruct (tlf_G code code 0 0%Z (embedded_refl code) Hnc I) as (A & B & _).
  split; [exact A | exact B].
Qed.

(* splitting at a line boundary *)
Lemma tlf_split : forall ts1 i line nr t2 ts2,
  line <> [] -> nocont ts1 -> t_line t2 <> last (map t_line ts1) nr ->
  token_lines_from i (ts1 ++ t2 :: ts2) line false nr =
  token_lines_from i ts1 line false nr ++ token_lines_from (i + length ts1) (t2 :: ts2) [] false 0%Z.
Proof.
  induction ts1 as [|t r IH]; intros i line nr t2 ts2 Hne Hnc Hb.
  - cbn [app map last length] in *. cbn [token_lines_from]. destruct line as [|x line']; [congruence|].
    apply Z.eqb_neq in Hb. rewrite Hb. rewrite Nat.add_0_r. reflexivity.
  - cbn [map] in Hb. rewrite last_cons in Hb. cbn [app token_lines_from].
    destruct line as [|x line']; [congruence|]. set (line := x :: line') in *.
    inversion Hnc as [|? ? Hc Hnc']; subst. cbn [length].
    replace (i + S (length r)) with (S i + length r) by lia.
    destruct (Z.eqb (t_line t) nr) eqn:E.
    + rewrite Hc. apply Z.eqb_eq in E. apply IH; [unfold line; discriminate | exact Hnc' | congruence].
    + cbn [app]. f_equal. apply IH; [discriminate | exact Hnc' | exact Hb].
Qed.

Lemma tlf_split0 ts1 i z t2 ts2 : ts1 <> [] -> nocont ts1 ->
  t_line t2 <> last (map t_line ts1) 0%Z ->
  token_lines_from i (ts1 ++ t2 :: ts2) [] false z =
  token_lines_from i ts1 [] false z ++ token_lines_from (i + length ts1) (t2 :: ts2) [] false 0%Z.
Proof.
  intros Hne Hnc Hb. destruct ts1 as [|t r]; [congruence|].
  cbn [map] in Hb. rewrite last_cons in Hb. inversion Hnc as [|? ? Hc Hnc']; subst.
  cbn [app token_lines_from length]. replace (i + S (length r)) with (S i + length r) by lia.
  apply tlf_split; [discriminate | exact Hnc' | exact Hb].
Qed.

Lemma tlf_nil_r i ts z : ts = [] -> token_lines_from i ts [] false z = [].
Proof. intros ->. reflexivity. Qed.

(* the three-way decomposition used for a suite [a, b) *)
Lemma lines_decomp c1 c2 c3 :
  let code := c1 ++ c2 ++ c3 in
  nocont code -> c1 <> [] -> c2 <> [] ->
  lstart code (length c1) -> (c3 <> [] -> lstart code (length c1 + length c2)) ->
  token_lines code =
    token_lines_from 0 c1 [] false 0%Z ++ token_lines_from (length c1) c2 [] false 0%Z
    ++ token_lines_from (length c1 + length c2) c3 [] false 0%Z.
Proof.
  intros code Hnc H1 H2 Hs1 Hs2.
  assert (He : embedded code code 0) by apply embedded_refl.
  assert (He1 : embedded code c1 0) by (apply (embedded_app1' code c1 (c2 ++ c3)); exact He).
  assert (He23 : embedded code (c2 ++ c3) (length c1)) by (apply (embedded_app2 code c1 (c2 ++ c3) 0); exact He).
  assert (He2 : embedded code c2 (length c1)) by (eapply embedded_app1'; exact He23).
  assert (He3 : embedded code c3 (length c1 + length c2)) by (eapply embedded_app2; exact He23).
  unfold code in Hnc. apply Forall_app in Hnc. destruct Hnc as [N1 N23].
  apply Forall_app in N23. destruct N23 as [N2 N3].
  unfold token_lines. fold code.
  destruct c2 as [|t2 r2] eqn:Ec2; [congruence|]. rewrite <- Ec2 in *.
  assert (Hl1 : length c1 = S (length c1 - 1)) by (destruct c1; [congruence | cbn [length]; lia]).
  assert (B1 : t_line t2 <> last (map t_line c1) 0%Z).
  { rewrite (embedded_last code c1 0 0%Z He1 H1). cbn [plus].
    rewrite Hl1 in Hs1. cbn [lstart] in Hs1. rewrite <- Hl1 in Hs1.
    rewrite Ec2 in He2. rewrite (embedded_hd _ _ _ _ He2) in Hs1. congruence. }
  unfold code. rewrite Ec2 at 1. cbn [app]. rewrite (tlf_split0 c1 0 0%Z t2 (r2 ++ c3) H1 N1 B1).
  f_equal. cbn [plus]. change (t2 :: r2 ++ c3) with ((t2 :: r2) ++ c3). rewrite <- Ec2.
  destruct c3 as [|t3 r3] eqn:Ec3.
  - rewrite !app_nil_r. reflexivity.
  - assert (B2 : t_line t3 <> last (map t_line c2) 0%Z).
    { rewrite (embedded_last code c2 _ 0%Z He2 H2).
      specialize (Hs2 ltac:(discriminate)).
      assert (Hl2 : length c1 + length c2 = S (length c1 + length c2 - 1))
        by (rewrite Ec2; cbn [length]; lia).
      rewrite Hl2 in Hs2. cbn [lstart] in Hs2. rewrite <- Hl2 in Hs2.
      rewrite (embedded_hd _ _ _ _ He3) in Hs2. congruence. }
    rewrite (tlf_split0 c2 (length c1) 0%Z t3 r3 H2 N2 B2). reflexivity.
Qed.

(* ====================================================================== *)
(* 2. block_lines                                                          *)
(* ====================================================================== *)

Section BL.
  Variables (ts : list token) (hl hi : Z).
  Definition ln_of (l : list nat) : Z := tok_line ts (line_first l).
  Definition ind_of (l : list nat) : Z := tok_col ts (line_first l).

  Lemma bl_stop rl acc : Forall (fun x => (ln_of (snd x) <= hl)%Z) rl -> block_lines ts rl hl hi acc = acc.
  Proof.
    destruct rl as [|[li l] r]; [reflexivity|]. intros H. inversion H as [|? ? Hx _]; subst.
    cbn [block_lines]. unfold ln_of in Hx. cbn [snd] in Hx.
    apply Z.leb_le in Hx. rewrite Hx. reflexivity.
  Qed.

  Lemma bl_collect : forall rl rest acc,
    Forall (fun x => (hl < ln_of (snd x))%Z /\ (hi < ind_of (snd x))%Z) rl ->
    block_lines ts (rl ++ rest) hl hi acc = block_lines ts rest hl hi (acc ++ map fst rl).
  Proof.
    induction rl as [|[li l] r IH]; intros rest acc H; cbn [app map].
    - rewrite app_nil_r. reflexivity.
    - inversion H as [|? ? [Hx1 Hx2] Hr]; subst. unfold ln_of, ind_of in Hx1, Hx2. cbn [snd] in Hx1, Hx2.
      cbn [block_lines].
      replace (tok_line ts (line_first l) <=? hl)%Z with false by (symmetry; apply Z.leb_gt; exact Hx1).
      rewrite Z.gtb_ltb.
      replace (hi <? tok_col ts (line_first l))%Z with true by (symmetry; apply Z.ltb_lt; exact Hx2).
      rewrite (IH rest _ Hr), <- app_assoc. reflexivity.
  Qed.

  Lemma bl_reset : forall rl x rest acc,
    Forall (fun y => (hl < ln_of (snd y))%Z) rl -> (hl < ln_of (snd x))%Z -> (ind_of (snd x) <= hi)%Z ->
    block_lines ts (rl ++ x :: rest) hl hi acc = block_lines ts rest hl hi [].
  Proof.
    induction rl as [|[li l] r IH]; intros x rest acc H Hx1 Hx2; cbn [app].
    - destruct x as [li l]. unfold ln_of, ind_of in Hx1, Hx2. cbn [snd] in Hx1, Hx2. cbn [block_lines].
      replace (tok_line ts (line_first l) <=? hl)%Z with false by (symmetry; apply Z.leb_gt; exact Hx1).
      rewrite Z.gtb_ltb.
      replace (hi <? tok_col ts (line_first l))%Z with false by (symmetry; apply Z.ltb_ge; exact Hx2).
      reflexivity.
    - inversion H as [|? ? Hy Hr]; subst. unfold ln_of in Hy. cbn [snd] in Hy. cbn [block_lines].
      replace (tok_line ts (line_first l) <=? hl)%Z with false by (symmetry; apply Z.leb_gt; exact Hy).
      destruct (tok_col ts (line_first l) >? hi)%Z; apply IH; assumption.
  Qed.

  (* the lines after the suite: nothing survives *)
  Lemma bl_tail nC rest :
    Forall (fun y => (hl < ln_of (snd y))%Z) nC ->
    (forall x r, nC = x :: r -> (ind_of (snd x) <= hi)%Z) ->
    block_lines ts (rev nC ++ rest) hl hi [] = block_lines ts rest hl hi [].
  Proof.
    intros H Hs. destruct nC as [|x r]; [reflexivity|].
    inversion H as [|? ? Hx Hr]; subst. cbn [rev]. rewrite <- app_assoc. cbn [app].
    apply bl_reset; [apply Forall_rev; exact Hr | exact Hx | apply (Hs x r eq_refl)].
  Qed.
End BL.

Lemma number_from_app {A} : forall (l1 l2 : list A) i,
  number_from i (l1 ++ l2) = number_from i l1 ++ number_from (i + length l1) l2.
Proof.
  induction l1 as [|x l1 IH]; intros l2 i; cbn [app number_from length].
  - rewrite Nat.add_0_r. reflexivity.
  - rewrite IH. replace (S i + length l1) with (i + S (length l1)) by lia. reflexivity.
Qed.

Lemma Forall_number_from {A} (P : A -> Prop) : forall (l : list A) i,
  Forall P l -> Forall (fun x => P (snd x)) (number_from i l).
Proof.
  induction l as [|x l IH]; intros i H; cbn [number_from]; [constructor|].
  inversion H; subst. constructor; [assumption | apply IH; assumption].
Qed.

Lemma flat_nth_mid : forall (B A C : list (list nat)),
  flat_map (fun li => nth li (A ++ B ++ C) []) (seq (length A) (length B)) = concat B.
Proof.
  induction B as [|b B IH]; intros A C; [reflexivity|].
  cbn [length seq flat_map concat]. f_equal.
  - rewrite app_nth2 by lia. rewrite Nat.sub_diag. reflexivity.
  - replace (A ++ (b :: B) ++ C) with ((A ++ [b]) ++ B ++ C) by (rewrite <- app_assoc; reflexivity).
    replace (S (length A)) with (length (A ++ [b])) by (rewrite app_length; cbn [length]; lia).
    apply IH.
Qed.

Lemma last_seq : forall m a d, last (seq a (S m)) d = a + m.
Proof.
  induction m as [|m IH]; intros a d; [cbn; lia|].
  change (seq a (S (S m))) with (a :: seq (S a) (S m)). rewrite last_cons, IH. lia.
Qed.

(* ====================================================================== *)
(* 3. the block of one descriptor                                          *)
(* ====================================================================== *)

Definition py_shape (ts : list token) (d : pydesc) : Prop :=
  (pd_start d <= pd_name d < pd_hend d)%nat /\ (pd_hend d < pd_bstart d)%nat /\
  (pd_bstart d < pd_bend d <= length ts)%nat /\
  (forall k, (pd_hend d <= k < pd_bstart d)%nat -> (tok_line ts k <= tok_line ts (pd_hend d))%Z) /\
  (tok_line ts (pd_hend d) < tok_line ts (pd_bstart d))%Z /\
  (forall k, (pd_bstart d <= k < pd_bend d)%nat -> (tok_col ts (pd_start d) < line_indent ts k)%Z) /\
  ((pd_bend d < length ts)%nat -> (tok_line ts (pd_bend d - 1) < tok_line ts (pd_bend d))%Z /\
                                  (tok_col ts (pd_bend d) <= tok_col ts (pd_start d))%Z).

Definition py_body_of (d : pydesc) : range := (pd_bstart d, pd_bend d).

Lemma tok_line_mono code i j : StronglySorted pos_lt code -> i <= j -> j < length code ->
  (tok_line code i <= tok_line code j)%Z.
Proof.
  intros HS Hij Hj. destruct (Nat.eq_dec i j) as [->|Hne]; [lia|].
  pose proof (sorted_pos code i j HS ltac:(lia) Hj). lia.
Qed.

Lemma line_hd_in (Ls : list (list nat)) L i n :
  concat Ls = seq i n -> In L Ls -> L <> [] -> i <= hd 0 L < i + n.
Proof.
  intros Hc Hin Hne. destruct L as [|x L']; [congruence|]. cbn [hd].
  assert (Hx : In x (concat Ls)) by (apply in_concat; exists (x :: L'); split; [exact Hin | left; reflexivity]).
  rewrite Hc in Hx. apply in_seq in Hx. exact Hx.
Qed.

(* deliverable 2 *)
Theorem py_block_spec code d :
  StronglySorted pos_lt code -> nocont code -> py_shape code d ->
  py_block code (token_lines code) (py_header_of d) = OK (Some (pd_bstart d, pd_bend d)).
Proof.
  intros HS Hnc (S1 & S2 & S3 & S4 & S5 & S6 & S7).
  set (a := pd_bstart d) in *. set (b := pd_bend d) in *.
  set (hl := tok_line code (pd_hend d)) in *. set (hi := tok_col code (pd_start d)) in *.
  (* the decomposition of the code *)
  set (c1 := firstn a code). set (c23 := skipn a code).
  set (c2 := firstn (b - a) c23). set (c3 := skipn (b - a) c23).
  assert (Ecode : code = c1 ++ c2 ++ c3).
  { unfold c1, c2, c3, c23. rewrite !firstn_skipn. reflexivity. }
  assert (L1 : length c1 = a) by (unfold c1; rewrite firstn_length; lia).
  assert (L23 : length c23 = length code - a) by (unfold c23; apply skipn_length).
  assert (L2 : length c2 = b - a) by (unfold c2; rewrite firstn_length; lia).
  assert (L3 : length c3 = length code - b) by (unfold c3; rewrite skipn_length; lia).
  assert (N1 : c1 <> []) by (intros E; rewrite E in L1; cbn in L1; lia).
  assert (N2 : c2 <> []) by (intros E; rewrite E in L2; cbn in L2; lia).
  clearbody c1 c2 c3. clear L23. clear c23.
  assert (Hsa : lstart code a).
  { destruct a as [|a'] eqn:Ea; [lia|]. cbn [lstart].
    assert (tok_line code a' <= hl)%Z.
    { destruct (Nat.eq_dec a' (pd_hend d)) as [->|Hne]; [unfold hl; lia|]. apply S4. lia. }
    lia. }
  assert (Hsb : c3 <> [] -> lstart code b).
  { intros N3. assert (b < length code) by (destruct c3; [congruence | cbn [length] in L3; lia]).
    destruct (S7 H) as [S71 _]. destruct b as [|b'] eqn:Eb; [lia|]. cbn [lstart].
    replace (S b' - 1) with b' in S71 by lia. lia. }
  assert (He : embedded code code 0) by apply embedded_refl.
  assert (He1 : embedded code c1 0) by (rewrite Ecode at 1; apply embedded_app1).
  assert (He23 : embedded code (c2 ++ c3) a).
  { rewrite <- L1. apply (embedded_app2 code c1 (c2 ++ c3) 0). rewrite <- Ecode. exact He. }
  assert (He2 : embedded code c2 a) by (eapply embedded_app1'; exact He23).
  assert (He3 : embedded code c3 b).
  { replace b with (a + length c2) by lia. eapply embedded_app2; exact He23. }
  pose proof Hnc as Hnc'. rewrite Ecode in Hnc'. apply Forall_app in Hnc'. destruct Hnc' as [Nc1 Nc23].
  apply Forall_app in Nc23. destruct Nc23 as [Nc2 Nc3].
  (* the lines *)
  set (A := token_lines_from 0 c1 [] false 0%Z).
  set (B := token_lines_from a c2 [] false 0%Z).
  set (C := token_lines_from b c3 [] false 0%Z).
  assert (Elines : token_lines code = A ++ B ++ C).
  { rewrite Ecode at 1. rewrite (lines_decomp c1 c2 c3).
    - rewrite L1, L2. replace (a + (b - a)) with b by lia. reflexivity.
    - rewrite <- Ecode. exact Hnc.
    - exact N1.
    - exact N2.
    - rewrite <- Ecode, L1. exact Hsa.
    - rewrite <- Ecode, L1, L2. replace (a + (b - a)) with b by lia. exact Hsb. }
  destruct (tlf_G code c1 0 0%Z He1 Nc1 I) as (GA1 & GA2 & _). fold A in GA1, GA2.
  destruct (tlf_G code c2 a 0%Z He2 Nc2 Hsa) as (GB1 & GB2 & GB3). fold B in GB1, GB2, GB3.
  rewrite L1 in GA1. rewrite L2 in GB1.
  (* properties of the three groups *)
  assert (PA : Forall (fun L => (ln_of code L <= hl)%Z) A).
  { apply Forall_forall. intros L HL. rewrite Forall_forall in GA2. destruct (GA2 L HL) as (Hn & _).
    pose proof (line_hd_in A L 0 a GA1 HL Hn) as Hh. unfold ln_of, line_first.
    destruct (Nat.le_gt_cases (pd_hend d) (hd 0 L)) as [Hc|Hc].
    - apply S4. lia.
    - apply tok_line_mono; [exact HS | lia | lia]. }
  assert (PB : Forall (fun L => (hl < ln_of code L)%Z /\ (hi < ind_of code L)%Z) B).
  { apply Forall_forall. intros L HL. rewrite Forall_forall in GB2. destruct (GB2 L HL) as (Hn & Hst & _).
    pose proof (line_hd_in B L a (b - a) GB1 HL Hn) as Hh. unfold ln_of, ind_of, line_first. split.
    - pose proof (tok_line_mono code a (hd 0 L) HS ltac:(lia) ltac:(lia)). lia.
    - specialize (S6 (hd 0 L) ltac:(lia)). unfold line_indent in S6.
      rewrite (lfi_start code _ Hst) in S6. exact S6. }
  assert (PC : Forall (fun L => (hl < ln_of code L)%Z) C /\
               (forall L r, C = L :: r -> (ind_of code L <= hi)%Z)).
  { destruct (Nat.eq_dec (length c3) 0) as [Z3|NZ3].
    - assert (E3 : c3 = []) by (destruct c3; [reflexivity | discriminate]).
      unfold C. rewrite E3. cbn. split; [constructor | intros; discriminate].
    - assert (N3 : c3 <> []) by (intros E3; rewrite E3 in NZ3; cbn in NZ3; lia).
      assert (Hb : b < length code) by lia.
      destruct (tlf_G code c3 b 0%Z He3 Nc3 (Hsb N3)) as (GC1 & GC2 & GC3). fold C in GC1, GC2, GC3.
      rewrite L3 in GC1. destruct (S7 Hb) as [S71 S72]. split.
      + apply Forall_forall. intros L HL. rewrite Forall_forall in GC2. destruct (GC2 L HL) as (Hn & _).
        pose proof (line_hd_in C L b _ GC1 HL Hn) as Hh. unfold ln_of, line_first.
        pose proof (tok_line_mono code b (hd 0 L) HS ltac:(lia) ltac:(lia)).
        pose proof (tok_line_mono code a (b - 1) HS ltac:(lia) ltac:(lia)). lia.
      + intros L r E. destruct (GC3 N3) as (l0 & R & E'). rewrite E' in E. inversion E; subst L.
        unfold ind_of, line_first. cbn [hd]. exact S72. }
  destruct PC as [PC1 PC2].
  (* the scan *)
  unfold py_block. cbn [py_header_of h_end h_start]. fold hl hi.
  replace (length code <=? pd_hend d) with false by (symmetry; apply Nat.leb_gt; lia).
  rewrite Elines, !number_from_app, !rev_app_distr, <- !app_assoc. cbn [plus].
  rewrite (bl_tail code hl hi).
  2:{ apply (Forall_number_from (fun L => (hl < ln_of code L)%Z)). exact PC1. }
  2:{ intros x r E. destruct C as [|L C']; [discriminate|]. cbn [number_from] in E.
      inversion E; subst x. cbn [snd]. apply (PC2 L C' eq_refl). }
  rewrite (bl_collect code hl hi).
  2:{ apply Forall_rev.
      apply (Forall_number_from (fun L => (hl < ln_of code L)%Z /\ (hi < ind_of code L)%Z)). exact PB. }
  rewrite (bl_stop code hl hi).
  2:{ apply Forall_rev. apply (Forall_number_from (fun L => (ln_of code L <= hl)%Z)). exact PA. }
  cbn [app]. rewrite map_rev, map_fst_number_from. cbn [plus].
  destruct (GB3 N2) as (l0 & R & EB).
  assert (LB : length B = S (length R)) by (rewrite EB; reflexivity).
  destruct (rev (seq (length A) (length B))) as [|x0 bl] eqn:Ebl.
  { exfalso. apply (f_equal (@length nat)) in Ebl. rewrite rev_length, seq_length, LB in Ebl. discriminate. }
  rewrite <- Ebl, rev_involutive, flat_nth_mid, GB1.
  assert (Eba : b - a = S (b - a - 1)) by lia. rewrite Eba.
  change (seq a (S (b - a - 1))) with (a :: seq (S a) (b - a - 1)). cbv beta iota zeta.
  rewrite last_cons.
  assert (Elast : last (seq (S a) (b - a - 1)) a = b - 1).
  { destruct (b - a - 1) as [|m] eqn:Em; [cbn [seq last]; lia|]. rewrite last_seq. lia. }
  rewrite Elast.
  destruct (nth_error code a) as [tf|] eqn:Ef; [|apply nth_error_None in Ef; lia].
  destruct (nth_error code (b - 1)) as [tl|] eqn:El; [|apply nth_error_None in El; lia].
  rewrite (index_of_token_sorted code 0 a tf HS Ef), (index_of_token_sorted code 0 (b - 1) tl HS El).
  cbn [plus]. replace (S (b - 1)) with b by lia. reflexivity.
Qed.

(* ====================================================================== *)
(* 4. extract_blocks                                                       *)
(* ====================================================================== *)

Lemma py_blocks_rev_spec code : StronglySorted pos_lt code -> nocont code -> forall ds,
  Forall (py_shape code) ds ->
  py_blocks_rev code (token_lines code) (map py_header_of ds) = OK (map py_body_of ds).
Proof.
  intros HS Hnc. induction ds as [|d r IH]; intros Hw; cbn [map py_blocks_rev]; [reflexivity|].
  inversion Hw as [|? ? Hd Hr]; subst.
  rewrite (py_block_spec code d HS Hnc Hd), (IH Hr). reflexivity.
Qed.

(* deliverable 2': Python.extract_blocks on the headers of a well-shaped family *)
Theorem py_extract_blocks_spec code ds :
  StronglySorted pos_lt code -> nocont code -> Forall (py_shape code) ds ->
  extract_blocks LPython code (map py_header_of ds) = OK (map py_body_of ds).
Proof.
  intros HS Hnc Hw. unfold extract_blocks, py_extract_blocks.
  rewrite <- map_rev, (py_blocks_rev_spec code HS Hnc (rev ds)); [|apply Forall_rev; exact Hw].
  rewrite <- map_rev, rev_involutive. reflexivity.
Qed.

Print Assumptions token_lines_spec.
Print Assumptions py_block_spec.
Print Assumptions py_extract_blocks_spec.
