(* Codebase.v — Codebase.add_file / add_folder / aggregate, SourceFolder,
   utils.get_parent_folder / get_basename.  Dictionaries are association
   lists in insertion order (Python dict semantics). Leaves (make_profile,
   merge_profiles, LanguageTotals.add) come from Gen/GenThresholds.v. *)
From Verif Require Import Base GenThresholds.
Open Scope Z_scope.

(* ---------- dict ---------- *)
Section Dict.
  Context {V : Type}.
  Definition dict := list (pystr * V).
  Fixpoint dget (d : dict) (k : pystr) : option V :=
    match d with [] => None | (k', v) :: r => if pystr_eqb k k' then Some v else dget r k end.
  (* d[k] = v : replace in place or append *)
  Fixpoint dset (d : dict) (k : pystr) (v : V) : dict :=
    match d with
    | [] => [(k, v)]
    | (k', v') :: r => if pystr_eqb k k' then (k', v) :: r else (k', v') :: dset r k v
    end.
  Definition dmem (d : dict) (k : pystr) : bool := match dget d k with Some _ => true | None => false end.
End Dict.
Arguments dict V : clear implicits.

(* ---------- paths: str.split("/") ---------- *)
Definition slash : Z := 47.
Fixpoint split_on (c : Z) (s : pystr) (cur : pystr) : list pystr :=
  match s with
  | [] => [rev cur]
  | x :: r => if x =? c then rev cur :: split_on c r [] else split_on c r (x :: cur)
  end.
Definition split_path (p : pystr) : list pystr := split_on slash p [].
Fixpoint join_path (parts : list pystr) : pystr :=
  match parts with
  | [] => []
  | [x] => x
  | x :: r => x ++ slash :: join_path r
  end.
Definition dot : pystr := [46].
Definition get_parent_folder (p : pystr) : pystr :=
  let parts := split_path p in
  match parts with
  | [_] | [] => dot
  | _ => join_path (removelast parts)
  end.
Definition get_basename (p : pystr) : pystr := last (split_path p) [].

(* ---------- folders ---------- *)
Inductive entry := EFile (e : FileEntry) | EFolder (name : pystr).    (* folder entry name = basename + "/" *)
Record folder := mkFolder { fo_entries : list entry; fo_profile : list Z }.
Definition empty_folder := mkFolder [] [0; 0; 0; 0].
Definition entry_name (en : entry) : pystr :=
  match en with EFile e => get_basename (e_path e) | EFolder n => n end.

Record codebase := mkCodebase
  { cb_root : pystr; cb_tree : dict folder; cb_files : dict FileEntry; cb_totals : dict LanguageTotals }.
Definition new_codebase (root : pystr) : codebase := mkCodebase root [([46; 47], empty_folder)] [] [].

Definition key_of (folder_path : pystr) : pystr := folder_path ++ [slash].

(* add_folder: recursion on the path depth; fuel = number of components + 1 *)
Fixpoint add_folder (fuel : nat) (tree : dict folder) (path : pystr) : res (dict folder) :=
  match fuel with
  | O => Err Recursion
  | S f =>
      if pystr_eqb path dot then OK tree
      else if dmem tree (key_of path) then OK tree
      else
        let tree1 := dset tree (key_of path) empty_folder in
        match add_folder f tree1 (get_parent_folder path) with
        | Err k => Err k
        | OK tree2 =>
            let pk := key_of (get_parent_folder path) in
            match dget tree2 pk with
            | None => Err KeyError
            | Some pf => OK (dset tree2 pk (mkFolder (fo_entries pf ++ [EFolder (get_basename path ++ [slash])]) (fo_profile pf)))
            end
        end
  end.

Definition lt_add (t : LanguageTotals) (e : FileEntry) : LanguageTotals :=
  let '(f, l, fn, h, u) := language_totals_add (lt_files t) (lt_loc t) (lt_functions t)
                                               (lt_hard_to_maintain t) (lt_unmaintainable t) e in
  mkLT (lt_language t) f l fn h u.

Definition add_file (cb : codebase) (e : FileEntry) : res codebase :=
  let files := dset (cb_files cb) (e_path e) e in
  let totals0 := if dmem (cb_totals cb) (e_language e) then cb_totals cb
                 else dset (cb_totals cb) (e_language e) (mkLT (e_language e) 0 0 0 0 0) in
  match dget totals0 (e_language e) with
  | None => Err KeyError
  | Some t =>
      let totals := dset totals0 (e_language e) (lt_add t e) in
      let parent := get_parent_folder (e_path e) in
      let fuel := S (S (length (split_path (e_path e)))) in
      match (if dmem (cb_tree cb) (key_of parent) then OK (cb_tree cb) else add_folder fuel (cb_tree cb) parent) with
      | Err k => Err k
      | OK tree1 =>
          match dget tree1 (key_of parent) with
          | None => Err KeyError
          | Some pf =>
              OK (mkCodebase (cb_root cb)
                    (dset tree1 (key_of parent) (mkFolder (fo_entries pf ++ [EFile e]) (fo_profile pf)))
                    files totals)
          end
      end
  end.

(* SourceFileEntry(path, checksum, language, loc, measurements): profile computed at construction *)
Definition mk_entry (path checksum language : pystr) (loc : Z) (ms : list Measurement) : FileEntry :=
  mkEntry path checksum language loc (make_profile ms) ms.

Fixpoint add_files (cb : codebase) (es : list FileEntry) : res codebase :=
  match es with
  | [] => OK cb
  | e :: r => match add_file cb e with Err k => Err k | OK cb' => add_files cb' r end
  end.

(* aggregate(): depth-first over the folder entries; folder.profile is updated in place *)
Fixpoint aggregate_folder (fuel : nat) (tree : dict folder) (path : pystr) : res (dict folder * list Z) :=
  match fuel with
  | O => Err Recursion
  | S f =>
      match dget tree path with
      | None => Err KeyError
      | Some fo =>
          let fix go (ens : list entry) (tree : dict folder) (profile : list Z) : res (dict folder * list Z) :=
            match ens with
            | [] => OK (tree, profile)
            | EFile e :: r => go r tree (merge_profiles profile (e_profile e))
            | EFolder name :: r =>
                let sub := if pystr_eqb path [46; 47] then name else path ++ name in
                match aggregate_folder f tree sub with
                | Err k => Err k
                | OK (tree', p) => go r tree' (merge_profiles profile p)
                end
            end in
          match go (fo_entries fo) tree (fo_profile fo) with
          | Err k => Err k
          | OK (tree', profile) =>
              match dget tree' path with
              | None => Err KeyError
              | Some fo' => OK (dset tree' path (mkFolder (fo_entries fo') profile), profile)
              end
          end
      end
  end.
Definition aggregate (cb : codebase) : res codebase :=
  match aggregate_folder (S (length (cb_tree cb))) (cb_tree cb) [46; 47] with
  | Err k => Err k
  | OK (tree, _) => OK (mkCodebase (cb_root cb) tree (cb_files cb) (cb_totals cb))
  end.

Definition build (root : pystr) (es : list FileEntry) : res codebase :=
  match add_files (new_codebase root) es with Err k => Err k | OK cb => aggregate cb end.

(* ---------- encodings ---------- *)
Definition enc_entry_ref (en : entry) : tree := enc_str (entry_name en).
Definition enc_folder (kf : pystr * folder) : tree :=
  T [enc_str (fst kf); enc_list enc_entry_ref (fo_entries (snd kf)); enc_list L (fo_profile (snd kf))].
Definition enc_codebase (cb : codebase) : tree :=
  T [enc_str (cb_root cb);
     enc_list (fun kt => enc_lt (snd kt)) (cb_totals cb);
     enc_list enc_folder (cb_tree cb);
     enc_list (fun kf => enc_entry (snd kf)) (cb_files cb)].
