"""C16 — token positions are faithful to the source text."""
import itertools
import random

from common import Check, assert_repo_import, eval_cases, eval_one, canon_tree, coq_list, z
import lang_common as LC
import malform
import progen

IMPORTS = "Base Token TokEngine Lex"


def segmentations(n):
    for bits in itertools.product([0, 1], repeat=max(n - 1, 0)):
        cuts = [0] + [i + 1 for i, b in enumerate(bits) if b] + [n]
        yield [(cuts[i], cuts[i + 1]) for i in range(len(cuts) - 1)]


def stub_type(seg, flip):
    from pygments.token import Text, Whitespace, Comment, Name, Punctuation, Literal
    if seg.isspace():
        return Whitespace if flip % 2 else Text
    if seg.startswith("#"):
        # every member of the Comment family, the bare parent type included (C's "#if 0" regions, JavaScript's "<!--")
        return [Comment, Comment.Single, Comment.Multiline, Comment.Preproc, Comment.Special, Comment.Hashbang][flip % 6]
    if seg == "(":
        return Punctuation
    if seg.isalpha():
        return Name
    if " " in seg or "\n" in seg:
        return Text               # non-white-space Text: kept
    return Literal.String


class StubLexer:
    def __init__(self, toks):
        self.toks = toks

    def get_tokens_unprocessed(self, code):
        return iter(self.toks)


def own_index(code, line, col):
    """independent location -> offset"""
    off = 0
    for _ in range(line - 1):
        nxt = code.find("\n", off)
        if nxt < 0:
            return None
        off = nxt + 1
    return off + col - 1


def judge(code, raw, toks_all, toks_code):
    """raw: lexer output; toks_all = lex(.., filter_comments=False); toks_code = lex(.., True)"""
    from pygments.token import Comment, Text, Whitespace
    probs = []
    for toks, keep_comments in ((toks_all, True), (toks_code, False)):
        prev = None
        for t in toks:
            i = own_index(code, t.location.line, t.location.column)
            if i is None or code[i:i + len(t.value)] != t.value:
                probs.append(f"token {t.value!r} reported at {t.location.line}:{t.location.column}, the text there is "
                             f"{None if i is None else code[i:i + len(t.value)]!r}")
            else:
                if prev is not None and not prev[0] + prev[1] <= i:
                    probs.append(f"token {t.value!r} at offset {i} overlaps / precedes the previous token")
                if prev is not None and not (prev[2] < (t.location.line, t.location.column)):
                    probs.append(f"token {t.value!r} not in strictly increasing source order")
                prev = (i, len(t.value), (t.location.line, t.location.column))
            if (t.token_type == Text or t.token_type == Whitespace) and t.value.isspace():
                probs.append(f"white-space token {t.value!r} kept")
            if t.token_type in Comment and not keep_comments:
                probs.append(f"comment token {t.value!r} kept although comments were not requested")
    # completeness: every non-empty, non-white-space token is kept (comments iff requested)
    want_all = [(off, v) for off, tt, v in raw if v and not ((tt == Text or tt == Whitespace) and v.isspace())]
    want_code = [(off, v) for off, tt, v in raw if v and not ((tt == Text or tt == Whitespace) and v.isspace())
                 and tt not in Comment]
    got_all = [(own_index(code, t.location.line, t.location.column), t.value) for t in toks_all]
    got_code = [(own_index(code, t.location.line, t.location.column), t.value) for t in toks_code]
    if got_all != want_all:
        probs.append("with comments requested the kept tokens are not exactly the non-white-space tokens")
    if got_code != want_code:
        probs.append("without comments the kept tokens are not exactly the non-white-space, non-comment tokens")
    return probs[:4]


def enc(toks):
    return [[LC.kind_code(t.token_type), t.value, t.location.line, t.location.column] for t in toks]


def model_expr(code, raw, fc):
    lts = coq_list(f"mkLtok {off} (kind_of_code {LC.kind_code(tt)}) {LC.pystr(v)}" for off, tt, v in raw)
    return f"enc_tokens (lex_file {LC.pystr(code)} {lts} {'true' if fc else 'false'})"


def run(tier, seed, replay=None):
    assert_repo_import()
    from codelimit.common.lexer_utils import lex
    chk = Check("C16", tier, seed)
    model_ok = chk.proof_stage(["Tok/LexProofs.vo", "Tok/LexPadProofs.vo", "Scope/TieProofs.vo"])
    cases = []
    # ---- stub lexer: every text over a small alphabet x every segmentation
    max_n = 5 if tier == "quick" else 6
    alphabet = ["a", " ", "\n", "(", "#"]
    k = 0
    # second, smaller enumeration with the characters str.splitlines() treats as line boundaries but "\n" counting must not
    exotic = [(n, chars) for n in range(1, 5) for chars in itertools.product(["a", "\n", "\x0c", "\r", "\u2028", "\x0b"], repeat=n)
              if any(c in chars for c in ("\x0c", "\r", "\u2028", "\x0b"))]
    for n, chars in [(n, chars) for n in range(0, max_n + 1) for chars in itertools.product(alphabet, repeat=n)] + exotic:
        if True:
            code = "".join(chars)
            for segs in segmentations(n):
                k += 1
                raw = [(a, stub_type(code[a:b], k + a), code[a:b]) for a, b in segs]
                if k % 5 == 0 and raw:            # zero-length tokens as the JavaScript lexer emits them
                    j = k % len(raw)
                    from pygments.token import Text
                    raw.insert(j, (raw[j][0], Text, ""))
                toks_all = lex(StubLexer(raw), code, False)
                toks_code = lex(StubLexer(raw), code, True)
                probs = judge(code, raw, toks_all, toks_code)
                chk.evaluations += 1
                if "\n" in code and len(raw) >= 2:
                    chk.nontrivial.add((code, tuple(segs)))
                chk.count("stub lexer")
                if probs:
                    chk.violation({"kind": "stub", "code": code, "segments": segs}, f"stub lexer on {code!r} / {segs}: " + "; ".join(probs))
                if k % (3 if tier == "quick" else 2) == 0:
                    cases.append((model_expr(code, raw, False), enc(toks_all), {"code": code, "segments": segs}))
                    cases.append((model_expr(code, raw, True), enc(toks_code), {"code": code, "segments": segs, "no_comments": True}))
    # ---- real lexers
    rng = chk.rng
    n_real = 60 if tier == "quick" else 1500
    for lang in LC.LANGS:
        texts = []
        for i in range(n_real):
            p = progen.generate(seed * 7 + i, lang, {"long_bodies": False})
            t = p["text"]
            r = rng.random()
            if r < 0.3:
                t = t.rstrip("\n")
            elif r < 0.5:
                t = t.replace("    ", "\t", rng.randint(0, 3))
            elif r < 0.65:
                t = t.replace("x = x + 1", "x = 'é' + \"日本\"", 1)
            elif r < 0.8:
                _, t = malform.mutate(rng, lang, t)
            texts.append(t)
        texts += malform.SPECIALS
        texts += ["int a;\n#if 0\nint old(void) { return 0; }\n#endif\nint f(void) { return 1; }\n",
                  "x = 1;\n<!-- legacy\nfunction f() { return 1; }\n", "#!/bin/sh\n# c\nx = 1\n",
                  "\ufeff// c\nvoid f() { }\n"]
        for t in texts:
            try:
                raw = LC.raw_lex(lang, t)
            except AssertionError as ex:
                chk.violation({"kind": "lexer-contract", "language": lang, "text": t}, f"harness: Pygments contract broken: {ex}")
                continue
            toks_all = LC.impl_lex(lang, t, True)
            toks_code = LC.impl_lex(lang, t, False)
            probs = judge(t, raw, toks_all, toks_code)
            chk.evaluations += 1
            if "\n" in t and len(toks_all) >= 3:
                chk.nontrivial.add((lang, t))
            chk.count("real lexer " + lang)
            if probs:
                chk.violation({"kind": "real", "language": lang, "text": t}, f"{lang} lexer on {t[:60]!r}: " + "; ".join(probs))
            if len(t) < 400:
                cases.append((model_expr(t, LC.raw_lex_padded(lang, t), False), enc(toks_all), {"language": lang, "chars": len(t)}))
    chk.samples = [c for _, _, c in cases[2000:2002] + cases[-2:]]
    if model_ok:
        mism, err = eval_cases("C16", IMPORTS, [(m, o) for m, o, _ in cases], shard=400)
        chk.traces = len(cases)
        if err:
            chk.broken.append("correspondence evaluation failed: " + err[-400:])
        for i in mism[:5]:
            got = eval_one("C16", IMPORTS, cases[i][0])
            chk.broken.append(f"correspondence: lex model and implementation differ on {cases[i][2]}: "
                              f"model {got} vs implementation {canon_tree(cases[i][1])}")
    else:
        chk.broken.append("lex model / proofs do not build; correspondence not run")
    nt = len(chk.nontrivial)
    chk.nontrivial = {str(i) for i in range(nt)}
    return chk.finish(
        rule=f"stub lexer: every text of length <= {max_n} over {{a, space, newline, (, #}} x every segmentation into "
             "tokens (plus injected zero-length tokens) — exercises the offset arithmetic independently of Pygments; the "
             "seven real lexers on generated programs (with/without trailing newline, tabs, non-ASCII, mutations) and "
             "special one-liners; judged by an independent location->offset computation; the Coq model evaluated on a "
             "third of the stub cases and on every short real text.  Non-trivial: the text has a line break and >= 2 tokens.",
        assumptions=["Pygments contract (contiguous offsets, text equality) asserted on every real text"],
        extra={"exhaustive": True})
