"""C10 — a damaged or partial cache never breaks or taints the next scan."""
import copy
import json
import multiprocessing as mp
import os
import shutil
import tempfile

from common import Check, assert_repo_import, eval_cases, eval_one, canon_tree, NPROC
import fs_common as F
import c09

IMPORTS = c09.IMPORTS

TREES = [
    [("a.py", 2)],
    [("a.py", 16), ("d/b.js", 31)],
    [("a.py", 2), ("d/b.js", 16), ("d/c.py", 31)],
    [],
]


def structural_faults(doc):
    """tampered copies of a cache document: each key removed at each level, values of the wrong type at each position"""
    out = []

    def paths(v, pre=()):
        if isinstance(v, dict):
            for k in v:
                yield pre + (k,)
                yield from paths(v[k], pre + (k,))
        elif isinstance(v, list):
            for i, x in enumerate(v):
                yield pre + (i,)
                yield from paths(x, pre + (i,))
    for p in list(paths(doc)):
        d = copy.deepcopy(doc)
        cur = d
        for k in p[:-1]:
            cur = cur[k]
        if isinstance(cur, dict):
            del cur[p[-1]]
            out.append((f"remove key {'/'.join(map(str, p))}", json.dumps(d)))
        for wrong in (5, "x", None, [], {}, True, 1.5):
            d = copy.deepcopy(doc)
            cur = d
            for k in p[:-1]:
                cur = cur[k]
            if type(cur[p[-1]]) is type(wrong):
                continue
            cur[p[-1]] = wrong
            out.append((f"value at {'/'.join(map(str, p))} := {wrong!r}", json.dumps(d)))
    out += [("empty file", ""), ("not json", "hello"), ("json scalar", "3"), ("json list", "[]"), ("json null", "null"),
            ("empty object", "{}"), ("nul bytes", "\x00\x00"), ("BOM", "﻿{}")]
    return out


def _work(args):
    tree, faults, tmp, tag = args
    res = []
    root = tempfile.mkdtemp(prefix=f"c10_{tag}_", dir=tmp)
    scratch = root + "_fresh"
    try:
        for p, c in tree:
            F.write_file(root, p, c)
        if not tree:
            os.makedirs(root, exist_ok=True)
        fresh, _ = F.fresh_report(root, [], scratch)
        for name, kind, payload in faults:
            cp = F.cache_path(root)
            cd = os.path.dirname(cp)
            shutil.rmtree(cd, ignore_errors=True)
            if kind == "bytes":
                os.makedirs(cd)
                with open(cp, "wb") as f:
                    f.write(payload)
            elif kind == "dir-without-file":
                os.makedirs(cd)
            elif kind == "dir-without-markers":
                os.makedirs(cd)
                with open(cp, "wb") as f:
                    f.write(payload)
            elif kind == "local-remove":
                # tamper with the cache this very tree's scan wrote (same root, same files): remove one key
                F.run_scan(root, [])
                with open(cp) as f:
                    d = json.load(f)
                cur = d
                for k in payload[:-1]:
                    cur = cur[k]
                cur.pop(payload[-1], None)
                with open(cp, "w") as f:
                    json.dump(d, f)
            elif kind == "local-set":
                F.run_scan(root, [])
                with open(cp) as f:
                    d = json.load(f)
                keys, val = payload
                curs = [d]
                for k in keys[:-1]:
                    curs = [v for c in curs if isinstance(c, dict) for v in (c.values() if k == "*" else [c.get(k)]) if v is not None]
                for c in curs:
                    if isinstance(c, dict):
                        c[keys[-1]] = val
                with open(cp, "w") as f:
                    json.dump(d, f)
            elif kind == "file-instead-of-dir":
                pass
            probs = []
            analysed = None
            try:
                rep, analysed = F.run_scan(root, [])
                rep["root"] = None
                if rep != fresh:
                    probs.append("the report differs from a from-scratch scan")
                with open(cp) as f:
                    raw_after = json.load(f)
                after = F.canonical(raw_after)
                after["root"] = None
                if after != fresh:
                    probs.append("the cache left behind is not the complete fresh report")
                missing = [k for k in ("version", "uuid", "timestamp", "root", "codebase") if k not in raw_after] + \
                          [f"codebase.{k}" for k in ("totals", "tree", "files") if k not in raw_after.get("codebase", {})]
                if missing:
                    probs.append(f"the cache left behind lacks {missing}")
                # and a second scan succeeds, reusing everything
                rep2, analysed2 = F.run_scan(root, [])
                rep2["root"] = None
                if rep2 != fresh:
                    probs.append("the scan after recovery differs from a from-scratch scan")
            except Exception as ex:
                probs.append(f"scan raised {type(ex).__name__}: {str(ex)[:100]}")
            res.append((name, probs, analysed))
    finally:
        shutil.rmtree(root, ignore_errors=True)
        shutil.rmtree(scratch, ignore_errors=True)
    return tree, res


def run(tier, seed, replay=None):
    assert_repo_import()
    chk = Check("C10", tier, seed)
    model_ok = chk.proof_stage(["Fs/Cache.vo", "Fs/FsProofs.vo", "Report/JsonProofs.vo"])
    tmp = tempfile.mkdtemp(prefix="verif_c10_")
    jobs = []
    try:
        # the cache document of each tree, as the tool writes it
        for ti, tree in enumerate(TREES):
            root = tempfile.mkdtemp(prefix="c10_seed_", dir=tmp)
            for p, c in tree:
                F.write_file(root, p, c)
            try:
                F.run_scan(root, [])
                data = open(F.cache_path(root), "rb").read()
                doc = json.loads(data)
            except (OSError, ValueError) as ex:
                # the first fault of all: no cache yet — the scan has to leave a complete one behind, also for a tree
                # without a single supported file (seeded change C10-26: nothing written for an empty code base)
                chk.violation({"tree": tree, "fault": "cache missing"},
                              f"a scan of the tree {[p for p, _ in tree]} without a cache left no readable cache behind: {type(ex).__name__}: {str(ex)[:160]}")
                shutil.rmtree(root, ignore_errors=True)
                continue
            shutil.rmtree(root)
            faults = []
            step = 1 if (tier != "quick" or len(data) < 900) else (3 if len(data) < 2500 else 7)
            for k in range(0, len(data), step):
                faults.append((f"truncated at byte {k} of {len(data)}", "bytes", data[:k]))
            # bytes that are not text in the reader's encoding, at positions inside keys, strings and numbers
            for k in sorted({0, 1, len(data) // 7, len(data) // 3, len(data) // 2, len(data) - 2} | set(range(5, len(data), 97 if tier == "quick" else 13))):
                if 0 <= k < len(data):
                    faults.append((f"byte {k} overwritten with 0xFF", "bytes", data[:k] + b"\xff" + data[k + 1:]))
                    faults.append((f"truncated at byte {k} inside a multi-byte sequence", "bytes", data[:k] + b"\xc3"))
            faults += [("binary garbage", "bytes", bytes(range(256)) * 3), ("utf-16 copy", "bytes", data.decode("ascii").encode("utf-16")),
                       ("nul-padded", "bytes", data + b"\x00" * 64),
                       ("an integer of 5000 digits", "bytes", data.replace(b'"loc": ', b'"loc": 1' + b"0" * 5000, 1) if b'"loc": ' in data else b"1" + b"0" * 5000),
                       ("deeply nested arrays", "bytes", b"[" * 100000), ("deeply nested objects", "bytes", b'{"a":' * 50000)]
            if ti in (1, 2) or tier != "quick":
                sf = structural_faults(doc)
                if tier == "quick":
                    # every removal of a key on the first two levels (version, uuid, timestamp, root, codebase and its
                    # tree / totals / files: a reader may accept a cache without some of them), a third of the rest
                    shallow = [f for f in sf if f[0].startswith("remove key") and f[0].count("/") <= 1]
                    sf = shallow + [f for f in sf[:: 3] if f not in shallow]
                for name, text in sf:
                    faults.append((name, "bytes", text.encode("utf8", "surrogatepass")))
            for keys in (("timestamp",), ("uuid",), ("codebase", "tree"), ("codebase", "totals"), ("root",), ("version",), ("codebase", "files")):
                faults.append((f"own cache with key {'/'.join(keys)} removed", "local-remove", keys))
            # the tree's own cache (same root, same checksums: "up to date") with one field of every file entry, or one
            # top-level field, replaced by a value of the right type but the wrong shape — also fields the reader is not
            # known to use today (seeded change C10-10: a stored per-file profile of fewer than four numbers)
            for field in ("profile", "measurements", "loc", "language", "checksum"):
                for val in ([], [0, 0, 0], [1], [0] * 9, [[0, 0, 0, 0]], 0, -1, "", {}, None, True):
                    if (field, val) in (("measurements", []), ("loc", 0), ("loc", -1), ("language", "")):
                        continue          # a well-formed entry that merely says something else: not recognisable as damage
                    faults.append((f"own cache with {field} = {json.dumps(val)} in every file entry", "local-set", (("codebase", "files", "*", field), val)))
            for keys in (("codebase", "tree"), ("codebase", "totals"), ("timestamp",), ("uuid",)):
                for val in ([], {}, "", 0, None, {"./": {"entries": [], "profile": [0, 0]}}):
                    faults.append((f"own cache with {'/'.join(keys)} = {json.dumps(val)}", "local-set", (keys, val)))
            faults += [("cache directory without file", "dir-without-file", b""),
                       ("cache file without marker files", "dir-without-markers", data),
                       ("garbage without marker files", "dir-without-markers", b"{\"version\": ")]
            n = max(1, len(faults) // (NPROC // 2))
            for k in range(0, len(faults), n):
                jobs.append((tree, faults[k:k + n], tmp, f"{ti}_{k}"))
        with mp.Pool(NPROC) as pool:
            for tree, res in pool.imap_unordered(_work, jobs):
                for name, probs, analysed in res:
                    chk.evaluations += 1
                    chk.count("truncation" if name.startswith("truncated") else "structural fault")
                    if tree:
                        chk.nontrivial.add((str(tree), name))
                    if probs:
                        chk.violation({"tree": tree, "fault": name}, f"tree {tree}, cache {name}: " + "; ".join(probs))
    finally:
        shutil.rmtree(tmp, ignore_errors=True)
    # ---- faults injected into the cache WRITE of a real run: the process may write only N bytes to any file
    #      (RLIMIT_FSIZE; the write then fails with EFBIG, or the process is killed by SIGXFSZ)
    child = (
        "import resource, signal, sys, io, contextlib\n"
        "from pathlib import Path\n"
        "n, mode, root = int(sys.argv[1]), sys.argv[2], sys.argv[3]\n"
        "from codelimit.commands.scan import scan_command\n"
        "# CPython ignores SIGXFSZ by default (the write then fails with EFBIG); 'kill' restores the default action: the\n"
        "# process dies inside the write, no exception handler or finally block runs\n"
        "signal.signal(signal.SIGXFSZ, signal.SIG_IGN if mode == 'error' else signal.SIG_DFL)\n"
        "resource.setrlimit(resource.RLIMIT_FSIZE, (n, n))\n"
        "with contextlib.redirect_stdout(io.StringIO()): scan_command(Path(root))\n")
    import subprocess
    from common import REPO
    tmp = tempfile.mkdtemp(prefix="verif_c10w_")
    try:
        tree = TREES[1]
        probe = tempfile.mkdtemp(prefix="probe_", dir=tmp)
        for p, c in tree:
            F.write_file(probe, p, c)
        F.run_scan(probe, [])
        size = os.path.getsize(F.cache_path(probe))
        limits = [0, 10, 43, 44, 60, 150, size // 2, size - 1] if tier == "quick" else list(range(0, size, 11))
        k = 0
        for n in limits:
            for mode in ("error", "kill"):
                for prior in (False, True):
                    k += 1
                    root = tempfile.mkdtemp(prefix=f"w{k}_", dir=tmp)
                    for p, c in tree:
                        F.write_file(root, p, c)
                    if prior:
                        F.run_scan(root, [])
                        F.write_file(root, "a.py", 31)            # one file changed since the cached scan
                    env = dict(os.environ, PYTHONPATH=REPO, LC_ALL="C", PYTHONDONTWRITEBYTECODE="1")
                    subprocess.run(["/venv/bin/python", "-c", child, str(n), mode, root], env=env, capture_output=True, timeout=600)
                    left = sorted(os.listdir(os.path.join(root, ".codelimit_cache"))) if os.path.isdir(os.path.join(root, ".codelimit_cache")) else None
                    fresh, _ = F.fresh_report(root, [], root + "_fresh")
                    probs = []
                    try:
                        rep, _ = F.run_scan(root, [])
                        rep["root"] = None
                        if rep != fresh:
                            probs.append("the scan after the interrupted one differs from a from-scratch scan")
                        rep2, _ = F.run_scan(root, [])
                    except Exception as ex:
                        probs.append(f"the scan after the interrupted one raised {type(ex).__name__}: {str(ex)[:120]}")
                    chk.evaluations += 1
                    chk.count("cache write cut short by the OS")
                    chk.nontrivial.add(("write", n, mode, prior))
                    if probs:
                        chk.violation({"tree": tree, "write_limit_bytes": n, "mode": mode, "prior_cache": prior, "left_on_disk": left},
                                      f"cache write limited to {n} bytes ({mode}, prior cache: {prior}; left on disk: {left}): " + "; ".join(probs))
                    shutil.rmtree(root, ignore_errors=True)
                    shutil.rmtree(root + "_fresh", ignore_errors=True)
    finally:
        shutil.rmtree(tmp, ignore_errors=True)
    # fault sequences interleaved with scans: through the C09 machinery, model included
    alpha = [("damage", "truncate"), ("damage", "garbage"), ("remove_cache",), ("write", "a.py", 16), ("delete", "d/b.js"),
             ("other_version",), ("drop", "a.py"), ("write", "d/c.py", 31)]
    prefix = [("write", "a.py", 2), ("write", "d/b.js", 16), ("scan",)]
    rng = chk.rng
    histories = []
    for _ in range(40 if tier == "quick" else 1500):
        h = list(prefix)
        for _ in range(rng.randint(2, 8)):
            h.append(rng.choice(alpha))
            if rng.random() < 0.7:
                h.append(("scan",))
        histories.append(h + [("scan",), ("scan",)])
    tmp = tempfile.mkdtemp(prefix="verif_c10s_")
    cases = []
    try:
        with mp.Pool(NPROC) as pool:
            for ops, out in pool.imap_unordered(c09.run_history, [(h, tmp, i) for i, h in enumerate(histories)], chunksize=2):
                chk.evaluations += 1
                chk.count("fault sequence")
                chk.nontrivial.add(str(ops))
                expected = []
                bad = False
                for i, rep, analysed, fresh, order, cache_ok in out:
                    if rep is None or rep != fresh or not cache_ok:
                        chk.violation({"history": ops, "failing_scan_index": i},
                                      f"fault sequence: scan #{i} " + (f"raised {analysed}" if rep is None else "differs from a fresh scan / left an incomplete cache"))
                        bad = True
                        break
                    ent = {"/".join(e[0]): e for e in F.entries_tree(rep)}
                    expected.append([ent[p] + [p in analysed] for p in order if p in ent])
                if not bad:
                    cases.append((c09.model_expr(ops), expected, {"history": ops}))
    finally:
        shutil.rmtree(tmp, ignore_errors=True)
    chk.samples = [c for _, _, c in cases[:2]] + [{"fault": "truncated at every byte offset of the written cache"}]
    if model_ok:
        mism, err = eval_cases("C10", IMPORTS, [(m, o) for m, o, _ in cases], shard=20)
        chk.traces = len(cases)
        if err:
            chk.broken.append("correspondence evaluation failed: " + err[-400:])
        for i in mism[:3]:
            got = eval_one("C10", IMPORTS, cases[i][0])
            chk.broken.append(f"correspondence: cache machine and implementation differ on {cases[i][2]}: model {str(got)[:300]}")
    else:
        chk.broken.append("cache model does not build; correspondence not run")
    nt = len(chk.nontrivial)
    chk.nontrivial = {str(i) for i in range(nt)}
    return chk.finish(
        rule="four small trees: the cache file as written by the tool cut at every byte offset (every 3rd/7th for the larger "
             "ones in the quick tier), every key removed at every level, every position overwritten by values of seven "
             "wrong types, empty / non-JSON / scalar / list documents, cache directory without file, cache without marker "
             "files; after each the scan must complete, equal a from-scratch scan, leave the complete fresh report as cache, "
             "and the following scan must succeed too; plus random fault sequences interleaved with edits and scans, also "
             "run through the Coq state machine.  Non-trivial: the tree has at least one file.",
        assumptions=["atomicity of the OS write is not assumed: every truncation is explored instead"],
        extra={"exhaustive": True})
