(* SpecProofs.v — property C01 for the brace languages: given the headers, the
   rest of the pipeline (blocks, pairing, fold/unfold, counting) reports
   exactly the specified measurements. *)
From Verif Require Import Base Token Lex Headers Blocks Pairing Fold ScanFile Spec.
From Verif Require Import LexProofs TotalProofsBlocks TotalProofsScopes WfProofsBase WfProofsBlocks
  WfProofsFold WfProofsPairing.
From Verif Require Import SpecProofsDyck SpecProofsPairing SpecProofsFold SpecProofsCount.
From Coq Require Import Sorted Permutation.
Open Scope nat_scope.

(* ====================================================================== *)
(* 1. descriptors and their scopes                                         *)
(* ====================================================================== *)

Lemma scope_of_inj a b : scope_of a = scope_of b -> a = b.
Proof. destruct a, b. unfold scope_of, header_of, body_of. cbn. intros E. inversion E. reflexivity. Qed.

Lemma SS_total {A} (R : A -> A -> Prop) : forall l, StronglySorted R l ->
  forall a b, In a l -> In b l -> a = b \/ R a b \/ R b a.
Proof.
  induction 1 as [|x l HS IH HF]; intros a b Ha Hb; [destruct Ha|].
  rewrite Forall_forall in HF. destruct Ha as [<-|Ha], Hb as [<-|Hb]; auto.
Qed.

Lemma scopes_lam_sorted code ds :
  Forall (wfd code) ds -> StronglySorted d_before ds -> lam_sorted (map scope_of ds).
Proof.
  intros Hw Hd. split.
  - apply (SSf_map lam scope_of). eapply SSf_impl; [|exact Hd].
    intros a b _ _ [H1 H2]. unfold lam, sc_start, sc_end.
    cbn [scope_of header_of body_of s_header s_block h_start snd].
    unfold nested_in, after in H2. split; [exact H1 | lia].
  - apply Forall_forall. intros s Hs. apply in_map_iff in Hs. destruct Hs as (d & <- & Hdin).
    rewrite Forall_forall in Hw. pose proof (wfd_order _ _ (Hw d Hdin)).
    unfold swf, sc_start, sc_end. cbn [scope_of header_of body_of s_header s_block h_start snd]. lia.
Qed.

Lemma s_contains_scope_of c d :
  s_contains (scope_of d) (scope_of c) = true <-> fd_start d < fd_start c /\ fd_close c <= fd_close d.
Proof.
  rewrite s_contains_iff. unfold sc_start, sc_end.
  cbn [scope_of header_of body_of s_header s_block h_start snd]. lia.
Qed.

Lemma contains_nested code ds c d :
  Forall (wfd code) ds -> StronglySorted d_before ds -> In c ds -> In d ds ->
  s_contains (scope_of d) (scope_of c) = true -> nested_in c d.
Proof.
  intros Hw Hd Hc Hdin H. apply s_contains_scope_of in H. rewrite Forall_forall in Hw.
  pose proof (wfd_order _ _ (Hw c Hc)). 
  destruct (SS_total d_before ds Hd c d Hc Hdin) as [->|[[A _]|[_ [B|B]]]]; try lia; [exact B|].
  unfold after in B. lia.
Qed.

Lemma nested_contains code c d : wfd code d -> nested_in c d ->
  s_contains (scope_of d) (scope_of c) = true.
Proof.
  intros Hw [A B]. pose proof (wfd_order _ _ Hw). apply s_contains_scope_of. lia.
Qed.

(* ====================================================================== *)
(* 2. one measurement                                                      *)
(* ====================================================================== *)

Definition child_ok (code : list token) (ds : list fdesc) (d : fdesc) (ch : list scope0) : Prop :=
  (forall c, In c ch -> exists d', In d' ds /\ c = scope_of d' /\ nested_in d' d /\ fd_start d' < length code) /\
  (forall d', In d' ds -> nested_in d' d ->
     exists d'', In (scope_of d'') ch /\ fd_start d'' <= fd_start d' /\ fd_close d' <= fd_close d'').

Lemma measure_expected code ds d ch :
  StronglySorted pos_lt code -> child_ok code ds d ch ->
  measure code (scope_of d, ch) = expected code ds d.
Proof.
  intros HS [H1 H2]. unfold measure, expected, count_lines.
  rewrite (count_spec code ds d ch HS H1 H2).
  cbn [scope_of header_of body_of s_header s_block h_name h_start snd].
  destruct (nth_error code (fd_name d)); [|reflexivity].
  destruct (nth_error code (fd_start d)); [|reflexivity].
  destruct (nth_error code (fd_close d)); reflexivity.
Qed.

Lemma measure_all_expected code ds : forall U ds',
  map fst U = map scope_of ds' ->
  (forall d ch, In d ds' -> In (scope_of d, ch) U -> measure code (scope_of d, ch) = expected code ds d) ->
  measure_all code U = expected_all code ds' ds.
Proof.
  induction U as [|[sc ch] U IH]; intros ds' Hm Hall; destruct ds' as [|d ds'']; try discriminate; [reflexivity|].
  cbn [map fst] in Hm. inversion Hm as [[E1 E2]]. subst sc.
  cbn [measure_all expected_all].
  rewrite (Hall d ch (or_introl eq_refl) (or_introl eq_refl)).
  destruct (expected code ds d); [|reflexivity].
  rewrite (IH ds'' E2); [reflexivity|].
  intros d' ch' Hd' Hin. apply Hall; right; assumption.
Qed.

(* ====================================================================== *)
(* 3. the nested variant: children from fold/unfold                        *)
(* ====================================================================== *)

Lemma unfold_child_ok code ds d ch :
  Forall (wfd code) ds -> StronglySorted d_before ds -> In d ds ->
  In (scope_of d, ch) (unfold_scopes (fold_scopes (map scope_of ds))) ->
  child_ok code ds d ch.
Proof.
  intros Hw Hd Hdin Hin.
  destruct (children_cover _ (scopes_lam_sorted code ds Hw Hd) _ _ Hin) as [C1 C2].
  pose proof Hw as Hw'. rewrite Forall_forall in Hw'. split.
  - intros c Hc. destruct (C1 c Hc) as [Hcin Hcc]. apply in_map_iff in Hcin.
    destruct Hcin as (d' & <- & Hd'). exists d'. split; [exact Hd'|]. split; [reflexivity|].
    split; [eapply contains_nested; eassumption|]. pose proof (wfd_order _ _ (Hw' d' Hd')). lia.
  - intros d' Hd' Hn.
    destruct (C2 (scope_of d') (in_map _ _ _ Hd') (nested_contains code d' d (Hw' d Hdin) Hn))
      as (c & Hc & Hce).
    destruct (C1 c Hc) as [Hcin _]. apply in_map_iff in Hcin. destruct Hcin as (d'' & <- & Hd'').
    exists d''. split; [exact Hc|]. destruct Hce as [E|E].
    + apply scope_of_inj in E. subst d''. lia.
    + apply s_contains_scope_of in E. lia.
Qed.

Lemma filter_nocl_nil code scopes : filter_nocl_scopes code scopes [] = scopes.
Proof.
  unfold filter_nocl_scopes. induction scopes as [|s l IH]; cbn [filter existsb negb]; [reflexivity|].
  f_equal. exact IH.
Qed.

Lemma extract_blocks_brace l code hs : l <> LPython -> extract_blocks l code hs = OK (get_blocks code).
Proof. destruct l; intros H; try reflexivity. congruence. Qed.

(* ====================================================================== *)
(* 4. C01 (brace languages, given the headers)                             *)
(* ====================================================================== *)

Theorem C01_brace_pipeline : forall (l : language) toks ds,
  l <> LPython -> lang_nested l = true ->
  let code := filter_tokens false toks in
  StronglySorted pos_lt code ->
  filter_nocl_comment_tokens toks = [] ->
  wf_descs code ds ->
  (exists hs, extract_headers l code = OK hs /\ Permutation hs (map header_of ds)) ->
  scan_file l toks = expected_all code ds ds.
Proof.
  intros l toks ds Hl Hn code HS Hnocl Hwf (hs & Hh & Hp).
  destruct (wf_descs_inv _ _ Hwf) as [Hw Hd].
  unfold scan_file, build_scopes. fold code. rewrite Hh, (extract_blocks_brace l code hs Hl), Hn, Hnocl.
  cbn [map]. rewrite filter_nocl_nil, (pairing_spec code ds hs HS Hwf Hp).
  apply measure_all_expected.
  - apply WfProofsFold.unfold_fold_fst.
  - intros d ch Hdin Hin. apply measure_expected; [exact HS|].
    apply unfold_child_ok; assumption.
Qed.

(* the flat variant (C): nested functions are not reported, so none may be nested *)
Theorem C01_brace_pipeline_flat : forall (l : language) toks ds,
  l <> LPython -> lang_nested l = false ->
  let code := filter_tokens false toks in
  StronglySorted pos_lt code ->
  filter_nocl_comment_tokens toks = [] ->
  wf_descs code ds ->
  (forall c d, In c ds -> In d ds -> ~ nested_in c d) ->
  (exists hs, extract_headers l code = OK hs /\ Permutation hs (map header_of ds)) ->
  scan_file l toks = expected_all code ds ds.
Proof.
  intros l toks ds Hl Hn code HS Hnocl Hwf Hflat (hs & Hh & Hp).
  destruct (wf_descs_inv _ _ Hwf) as [Hw Hd].
  unfold scan_file, build_scopes. fold code. rewrite Hh, (extract_blocks_brace l code hs Hl), Hn, Hnocl.
  cbn [map]. rewrite filter_nocl_nil, (pairing_spec code ds hs HS Hwf Hp).
  unfold filter_scopes_nested_functions. rewrite filter_nested_loop_id.
  - apply measure_all_expected.
    + rewrite map_map. cbn [fst]. apply map_id.
    + intros d ch Hdin Hin. apply in_map_iff in Hin. destruct Hin as (s & E & _).
      inversion E; subst. apply measure_expected; [exact HS|]. split.
      * intros c [].
      * intros d' Hd' Hnest. exfalso. exact (Hflat d' d Hd' Hdin Hnest).
  - intros a Ha. discriminate.
  - intros a b Ha Hb. apply in_map_iff in Ha, Hb. destruct Ha as (da & <- & Hda). destruct Hb as (db & <- & Hdb).
    destruct (s_contains (scope_of da) (scope_of db)) eqn:E; [|reflexivity]. exfalso.
    apply (Hflat db da Hdb Hda). eapply contains_nested; eassumption.
Qed.

Print Assumptions C01_brace_pipeline.
Print Assumptions C01_brace_pipeline_flat.
