(* C12 — interim *)
From Verif Require Import Base Codebase Exclude GenScan FsScan CheckCmd.
Example C12_ex : check_exit [([[97]], [61])] = 1%Z. Proof. reflexivity. Qed.
