(* CodebaseProofs.v — property C07: totals, profiles and the folder tree always
   agree with the measurements.  Final statements; the work is in
   CodebaseProofsStr / Totals / Tree / Inv / Agg. *)
From Verif Require Import Base BaseProofs GenThresholds Thresholds Codebase
  CodebaseProofsStr CodebaseProofsTotals CodebaseProofsTree CodebaseProofsInv CodebaseProofsAgg.
Open Scope Z_scope.

(* ---------- depth of the tree is below its number of keys ---------- *)
Lemma NoDup_map_inj_in {A B} (f : A -> B) l :
  (forall x y, In x l -> In y l -> f x = f y -> x = y) -> NoDup l -> NoDup (map f l).
Proof.
  intros Hinj Hnd. induction Hnd as [|a l Hni Hnd IH]; cbn [map]; constructor.
  - intros Hin. apply in_map_iff in Hin. destruct Hin as (b & E & Hb).
    apply Hinj in E; [|right; exact Hb|left; reflexivity]. subst b. contradiction.
  - apply IH. intros x y Hx Hy. apply Hinj; right; assumption.
Qed.

Definition allpre (cs : list pystr) : list (list pystr) :=
  map (fun i => firstn i cs) (seq 0 (S (length cs))).

Lemma allpre_NoDup cs : NoDup (allpre cs).
Proof.
  unfold allpre. apply NoDup_map_inj_in; [|apply seq_NoDup].
  intros i j Hi Hj E. apply in_seq in Hi, Hj. apply (f_equal (@length pystr)) in E.
  rewrite !firstn_length in E. lia.
Qed.

Lemma allpre_prefix cs pre : In pre (allpre cs) -> exists suf, cs = pre ++ suf.
Proof.
  unfold allpre. rewrite in_map_iff. intros (i & <- & _). exists (skipn i cs).
  symmetry. apply firstn_skipn.
Qed.

Lemma depth_bound tree cs : TInv [] tree -> good cs -> In (fkey cs) (keys tree) ->
  (length cs <= pred (length tree))%nat.
Proof.
  intros HT Hg Hin.
  assert (Hle : (length (map fkey (allpre cs)) <= length (keys tree))%nat).
  { apply NoDup_incl_length.
    - apply NoDup_map_inj_in; [|apply allpre_NoDup]. intros x y Hx Hy E.
      apply allpre_prefix in Hx, Hy. destruct Hx as (s1 & E1), Hy as (s2 & E2).
      apply fkey_inj; [| |exact E].
      + rewrite E1 in Hg. eapply good_prefix; exact Hg.
      + rewrite E2 in Hg. eapply good_prefix; exact Hg.
    - intros k Hk. apply in_map_iff in Hk. destruct Hk as (pre & <- & Hpre).
      apply allpre_prefix in Hpre. destruct Hpre as (suf & E).
      apply (TInv_prefix_closed tree pre HT suf); rewrite <- E; assumption. }
  unfold allpre, keys in Hle. rewrite !map_length, seq_length in Hle. lia.
Qed.

(* ---------- build: totality and the final shape ---------- *)
Definition Final (es : list FileEntry) (tree : dict folder) : Prop :=
  Shape es tree /\ forall k fo, In (k, fo) tree -> fo_profile fo = target es k.

Lemma build_final root es : Forall wf_path (map e_path es) ->
  exists cb, build root es = OK cb /\ Final es (cb_tree cb).
Proof.
  intros Hwf. destruct (add_files_Inv root es Hwf) as (cb0 & Eadd & [HS Hzero]).
  assert (Hwf' : forall e, In e es -> wf_path (e_path e)).
  { intros e He. rewrite Forall_forall in Hwf. apply Hwf. apply in_map. exact He. }
  pose proof (sh_t _ _ HS) as HT.
  destruct (agg_spec es (cb_tree cb0) (pred (length (cb_tree cb0))) HS Hwf'
              (fun cs Hg Hin => depth_bound _ cs HT Hg Hin)
              (S (length (cb_tree cb0))) [] ltac:(cbn; lia) (cb_tree cb0))
    as (tree' & E & Hsk & _ & Hres).
  - constructor.
  - apply (ti_root _ _ HT).
  - apply same_skel_refl.
  - intros ds _. apply Hzero.
  - unfold build. rewrite Eadd. unfold aggregate. change [46; 47] with (fkey []). rewrite E.
    eexists. split; [reflexivity|]. cbn [cb_tree].
    pose proof (same_skel_Shape es _ _ Hsk HS) as HS'. split; [exact HS'|].
    intros k fo Hin. apply (shape_lookup es tree' HS') in Hin.
    assert (Hk : In k (keys (cb_tree cb0))).
    { destruct Hsk as [Hk _]. rewrite Hk. eapply dget_Some_key; eauto. }
    destruct (ti_keys _ _ HT k Hk) as (ds & Hds & ->).
    specialize (Hres ds Hds Hk). cbn [app] in Hres. rewrite Hin in Hres. exact Hres.
Qed.

Lemma build_Final root es cb : Forall wf_path (map e_path es) -> build root es = OK cb ->
  Final es (cb_tree cb).
Proof.
  intros Hwf Hb. destruct (build_final root es Hwf) as (cb' & Hb' & HF).
  rewrite Hb in Hb'. inversion Hb'; subst. exact HF.
Qed.

(* ---------- item 1 ---------- *)
Theorem C07_build_total root es : Forall wf_path (map e_path es) -> exists cb, build root es = OK cb.
Proof. intros Hwf. destruct (build_final root es Hwf) as (cb & Hb & _). eauto. Qed.

(* items 2, 3, 6: C07_files, C07_lang_totals, C07_totals_keys, C07_grand_totals, C07_file_profile
   are proved in CodebaseProofsTotals.v *)

(* ---------- item 4 ---------- *)
Theorem C07_folder_keys root es cb : Forall wf_path (map e_path es) -> build root es = OK cb ->
  NoDup (map fst (cb_tree cb)) /\
  forall k, In k (map fst (cb_tree cb)) <->
            k = rootk \/ exists e, In e es /\ In k (ancestors (e_path e)).
Proof.
  intros Hwf Hb. destruct (build_Final root es cb Hwf Hb) as [HS _]. split.
  - apply (shape_keys_nodup es _ HS).
  - apply (sh_keys _ _ HS).
Qed.

(* ---------- item 5 ---------- *)
Definition mk_built (e : FileEntry) : Prop := e_profile e = make_profile (e_measurements e).

Lemma mk_entry_built path checksum language loc ms : mk_built (mk_entry path checksum language loc ms).
Proof. reflexivity. Qed.

Definition sum_over (c : category) (fs : list FileEntry) : Z :=
  sumf (fun e => sum_cat c (e_measurements e)) fs.

Lemma prof4_built fs : Forall mk_built fs ->
  prof4 fs = [sum_over Easy fs; sum_over Verbose fs; sum_over Hard fs; sum_over Unm fs].
Proof.
  intros H. rewrite Forall_forall in H. unfold prof4, sum_over.
  assert (E : forall i c, (forall ms, nthZ i (make_profile ms) = sum_cat c ms) ->
              sumf (pe i) fs = sumf (fun e => sum_cat c (e_measurements e)) fs).
  { intros i c Hic. apply sumf_ext. intros e He. unfold pe. rewrite (H e He). apply Hic. }
  rewrite (E 0%nat Easy), (E 1%nat Verbose), (E 2%nat Hard), (E 3%nat Unm);
    try (intros ms; rewrite make_profile_spec; reflexivity).
  reflexivity.
Qed.

(* general form: componentwise sum of the profiles of all files beneath the folder, any depth *)
Theorem C07_folder_profile_gen root es cb : Forall wf_path (map e_path es) -> build root es = OK cb ->
  forall k fo, In (k, fo) (cb_tree cb) ->
    let fs := filter (fun e => beneathb k (e_path e)) es in
    fo_profile fo = [sumf (fun e => nthZ 0 (e_profile e)) fs; sumf (fun e => nthZ 1 (e_profile e)) fs;
                     sumf (fun e => nthZ 2 (e_profile e)) fs; sumf (fun e => nthZ 3 (e_profile e)) fs].
Proof.
  intros Hwf Hb k fo Hin. destruct (build_Final root es cb Hwf Hb) as [_ HP]. apply (HP k fo Hin).
Qed.

Theorem C07_folder_profile root es cb : Forall wf_path (map e_path es) -> Forall mk_built es ->
  build root es = OK cb ->
  forall k fo, In (k, fo) (cb_tree cb) ->
    let fs := filter (fun e => beneathb k (e_path e)) es in
    fo_profile fo = [sum_over Easy fs; sum_over Verbose fs; sum_over Hard fs; sum_over Unm fs].
Proof.
  intros Hwf Hmk Hb k fo Hin fs. destruct (build_Final root es cb Hwf Hb) as [_ HP].
  rewrite (HP k fo Hin). unfold target. apply prof4_built.
  apply Forall_forall. intros e He. apply filter_In in He. destruct He as [He _].
  rewrite Forall_forall in Hmk. apply Hmk, He.
Qed.

Lemma filter_all {A} (p : A -> bool) l : (forall a, In a l -> p a = true) -> filter p l = l.
Proof.
  induction l as [|a l IH]; intros H; [reflexivity|]. cbn [filter].
  rewrite H by (left; reflexivity). f_equal. apply IH. intros b Hb. apply H. right. exact Hb.
Qed.

Theorem C07_root_is_all root es cb : Forall wf_path (map e_path es) -> Forall mk_built es ->
  build root es = OK cb ->
  exists fo, In (rootk, fo) (cb_tree cb) /\
    fo_profile fo = [sum_over Easy es; sum_over Verbose es; sum_over Hard es; sum_over Unm es].
Proof.
  intros Hwf Hmk Hb. destruct (build_Final root es cb Hwf Hb) as [HS _].
  destruct (dget_In_key (cb_tree cb) rootk (ti_root _ _ (sh_t _ _ HS))) as (fo & Hfo).
  apply (shape_lookup es _ HS) in Hfo. exists fo. split; [exact Hfo|].
  rewrite (C07_folder_profile root es cb Hwf Hmk Hb rootk fo Hfo).
  rewrite filter_all; [reflexivity|]. intros e _. reflexivity.
Qed.

(* beneath, in words *)
Theorem beneath_iff k p : beneathb k p = true <-> k = rootk \/ In k (ancestors p).
Proof. apply beneathb_spec. Qed.

(* ---------- item 7 ---------- *)
Theorem C07_tree_files root es cb : Forall wf_path (map e_path es) -> build root es = OK cb ->
  forall k fo, In (k, fo) (cb_tree cb) ->
    files_of fo = filter (fun e => pystr_eqb (folder_of (e_path e)) k) es.
Proof.
  intros Hwf Hb k fo Hin. destruct (build_Final root es cb Hwf Hb) as [HS _].
  apply (shape_files es _ HS k fo Hin).
Qed.

Theorem C07_tree_files_once root es cb : Forall wf_path (map e_path es) -> NoDup (map e_path es) ->
  build root es = OK cb ->
  forall e, In e es ->
    (exists fo, In (folder_of (e_path e), fo) (cb_tree cb) /\ occurs_once (EFile e) (fo_entries fo)) /\
    (forall k fo, In (k, fo) (cb_tree cb) -> In (EFile e) (fo_entries fo) -> k = folder_of (e_path e)).
Proof.
  intros Hwf Hnd Hb e He. destruct (build_Final root es cb Hwf Hb) as [HS _].
  apply (shape_file_once es _ HS e Hnd He).
  rewrite Forall_forall in Hwf. apply Hwf, in_map, He.
Qed.

Theorem C07_tree_folders_once root es cb : Forall wf_path (map e_path es) -> build root es = OK cb ->
  forall k, In k (map fst (cb_tree cb)) -> k <> rootk ->
    exists cs c, good (cs ++ [c]) /\ k = fkey (cs ++ [c]) /\
      (exists pfo, In (fkey cs, pfo) (cb_tree cb) /\
                   occurs_once (EFolder (c ++ [slash])) (fo_entries pfo)) /\
      sub_key (fkey cs) (c ++ [slash]) = k /\
      (forall pk fo n, In (pk, fo) (cb_tree cb) -> In (EFolder n) (fo_entries fo) -> sub_key pk n = k ->
                       pk = fkey cs /\ n = c ++ [slash]).
Proof.
  intros Hwf Hb k Hk Hne. destruct (build_Final root es cb Hwf Hb) as [HS _].
  apply (shape_folder_once es _ HS k Hk Hne).
Qed.

(* the parent key and the entry name, as computed by the Python code *)
Lemma fkey_parent_basename cs c : good (cs ++ [c]) ->
  fkey cs = key_of (get_parent_folder (fpath (cs ++ [c]))) /\
  c ++ [slash] = get_basename (fpath (cs ++ [c])) ++ [slash].
Proof.
  intros Hg. assert (Hne : cs ++ [c] <> []) by (destruct cs; discriminate).
  rewrite get_parent_folder_fpath, get_basename_fpath, removelast_snoc, last_snoc by assumption.
  split; reflexivity.
Qed.

Theorem C07_every_folder_reachable root es cb : Forall wf_path (map e_path es) -> build root es = OK cb ->
  forall k, In k (map fst (cb_tree cb)) -> reach (cb_tree cb) k.
Proof.
  intros Hwf Hb k Hk. destruct (build_Final root es cb Hwf Hb) as [HS _].
  apply (shape_reach es _ HS k Hk).
Qed.

(* every sub-folder entry points to a folder of the tree *)
Theorem C07_subfolder_entries_resolve root es cb : Forall wf_path (map e_path es) -> build root es = OK cb ->
  forall pk fo n, In (pk, fo) (cb_tree cb) -> In (EFolder n) (fo_entries fo) ->
    In (sub_key pk n) (map fst (cb_tree cb)).
Proof.
  intros Hwf Hb pk fo n Hpk Hn. destruct (build_Final root es cb Hwf Hb) as [HS _].
  pose proof (sh_t _ _ HS) as HT. apply (shape_lookup es _ HS) in Hpk.
  destruct (ti_keys _ _ HT pk (dget_Some_key _ _ _ Hpk)) as (ds & Hgd & ->).
  destruct (ti_subs _ _ HT ds fo Hgd Hpk) as (names & Hm1 & Hm2 & Hm3).
  apply In_ents_subs in Hn. fold (subs_of fo) in Hn. rewrite Hm1 in Hn.
  apply in_map_iff in Hn. destruct Hn as (c' & <- & Hc'). apply Hm3 in Hc'.
  rewrite sub_key_fkey by exact Hgd. tauto.
Qed.

(* ---------- sanity of the definitions; necessity of the hypotheses ---------- *)
(* "a/b/c" : ancestors "a/", "a/b/"; parent folder "a/b/";  "e" : no ancestors, parent "./" *)
Example ancestors_ex : ancestors [97; 47; 98; 47; 99] = [[97; 47]; [97; 47; 98; 47]] /\
                       folder_of [97; 47; 98; 47; 99] = [97; 47; 98; 47] /\
                       ancestors [101] = [] /\ folder_of [101] = rootk.
Proof. vm_compute. auto. Qed.
(* a "." component violates wf_path and aggregate() then fails: path "./x/f" gives KeyError
   (the Python Codebase.aggregate raises KeyError 'x/' on the same input) *)
Example wf_path_needed :
  build [] [mk_entry [46; 47; 120; 47; 102] [] [67] 3 []] = Err KeyError.
Proof. vm_compute. reflexivity. Qed.
(* the same path inserted twice: one entry in cb_files, two entries in the folder *)
Example nodup_needed :
  match build [] [mk_entry [101] [] [67] 3 []; mk_entry [101] [] [67] 3 []] with
  | OK cb => length (cb_files cb) = 1%nat /\ map (fun kf => length (fo_entries (snd kf))) (cb_tree cb) = [2%nat]
  | Err _ => False
  end.
Proof. vm_compute. auto. Qed.

Print Assumptions C07_build_total.
Print Assumptions C07_files.
Print Assumptions C07_lang_totals.
Print Assumptions C07_totals_keys.
Print Assumptions C07_grand_totals.
Print Assumptions C07_folder_keys.
Print Assumptions C07_folder_profile_gen.
Print Assumptions C07_folder_profile.
Print Assumptions C07_root_is_all.
Print Assumptions C07_file_profile.
Print Assumptions C07_tree_files.
Print Assumptions C07_tree_files_once.
Print Assumptions C07_tree_folders_once.
Print Assumptions C07_every_folder_reachable.
Print Assumptions C07_subfolder_entries_resolve.
