(* PyLexical.v — the Python pipeline theorem with the header hypothesis replaced by the lexical one,
   and the boolean checkers of its hypotheses. *)
From Verif Require Import Base Token Lex LexProofs Headers Blocks Pairing Fold ScanFile Spec HeaderSpec SpecCheck LexShapes
  PySpec PySpecProofs PySpecCheck ShapeProofsDef ShapeProofs.
From Coq Require Import Sorted Permutation.
Open Scope Z_scope.

Definition py_lexically_canonical (ts : list token) (ds : list pydesc) : Prop :=
  Permutation (lexical_headers_Python ts) (map py_header_of ds).

Theorem C01_python_lexical : forall toks ds,
  let code := filter_tokens false toks in
  StronglySorted pos_lt code -> filter_nocl_comment_tokens toks = [] ->
  py_wf_descs code ds -> py_lexically_canonical code ds ->
  scan_file LPython toks = py_expected_all code ds ds.
Proof.
  intros toks ds code Hs Hn Hw Hl. apply C01_python_pipeline; auto.
  exists (lexical_headers_Python code). split; [apply extract_headers_Python|exact Hl].
Qed.

Definition py_lexically_canonical_b (ts : list token) (ds : list pydesc) : bool :=
  headers_eqb (lexical_headers_Python ts) (map py_header_of ds).
Theorem py_lexically_canonical_b_sound ts ds :
  py_lexically_canonical_b ts ds = true -> py_lexically_canonical ts ds.
Proof. unfold py_lexically_canonical_b, py_lexically_canonical. intros H. apply headers_eqb_sound in H. rewrite H. reflexivity. Qed.
