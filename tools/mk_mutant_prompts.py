"""Write the task texts for a round of seeding sub-agents: /tmp/mutant_prompt_<Cnn>.txt, one per property.
usage: mk_mutant_prompts.py <k1> <k2> [round-note]      (the two file numbers the agent must use, e.g. 5 6)
Each agent gets ONLY this text (property statement, quantifier, anchors) and a scratch worktree /tmp/wt_<Cnn>."""
import json
import sys

k1, k2 = sys.argv[1], sys.argv[2]
note = sys.argv[3] if len(sys.argv) > 3 else ""
TEMPLATE = """You are a software engineer helping to evaluate a verification effort by SEEDING realistic defects. You work in a scratch git worktree of the Python project "codelimit" (a CLI that lexes source files with Pygments, finds function definitions with a small token-regex NFA/DFA engine, and reports function-length metrics) at: /tmp/wt_{id}

Rules:
- Work ONLY inside /tmp/wt_{id} and in the output directory /tmp/mut_{id} (create it). Do NOT read, list or touch /verif or /repo or anything under /root/.vp. Do not use git commands other than `git -C /tmp/wt_{id} diff` and `git -C /tmp/wt_{id} checkout -- .` inside the worktree (never `git stash`: the stash is shared with other engineers' worktrees).
- Run the project's test suite with: `cd /tmp/wt_{id} && PYTHONPATH=/tmp/wt_{id} /venv/bin/python -m pytest -q -p no:cacheprovider` (157 tests pass on the unchanged tree). Run your own demo scripts with `cd /tmp/wt_{id} && PYTHONPATH=/tmp/wt_{id} /venv/bin/python demo.py` so that the worktree's code is imported (check `codelimit.__file__` starts with /tmp/wt_{id}).

The property under study (it holds on the unchanged tree):

{id} — {title}

STATEMENT: {statement}

QUANTIFIED OVER: {quant}

CODE ANCHORS: {anchors}


Your task: produce TWO independent, realistic code changes ("mutants") to the codelimit sources in the worktree, each of which BREAKS this property while the code still imports/compiles and the EXISTING test suite still passes (all 157 tests) with the change applied. Each mutant should look like a plausible refactoring slip, optimisation or "small improvement" a developer might make — not sabotage — and should need something SPECIFIC to manifest: an unusual input, a particular boundary value, a multi-step sequence of operations, a particular ordering, a crash/fault at a particular point, or two cooperating sites that each look fine alone. Avoid changes that ordinary use would expose at once (e.g. breaking every run). Prefer the two mutants to be in different files/mechanisms. {note}Do not edit the tests.

For each mutant k in {{{k1},{k2}}} (the files are numbered {k1} and {k2}):
1. apply the change in the worktree, run the full test suite (must be 157 passed),
2. write a small demonstration `/tmp/mut_{id}/demo_k.py` (a standalone script using only the codelimit package and the standard library; it must exit 0 and print "PROPERTY HOLDS" when the property holds on its scenario and exit 1 and print "PROPERTY VIOLATED: <what>" when it is violated); verify it prints VIOLATED with the change and HOLDS without it (save the diff to a file, `git -C /tmp/wt_{id} checkout -- .`, run the demo, then re-apply with `patch -p1 < file` if needed),
3. save the change as `/tmp/mut_{id}/mutant_k.diff` (`git -C /tmp/wt_{id} diff > /tmp/mut_{id}/mutant_k.diff`), then restore the worktree to the unchanged state (`git -C /tmp/wt_{id} checkout -- .`) before starting the next mutant,
4. write `/tmp/mut_{id}/meta_k.json` with keys: "property" (the id), "summary" (one sentence: what was changed), "needs" (what specific input / sequence / condition makes it manifest), "files" (list of touched files), "tests": "157 passed".

Leave the worktree clean at the end. Report: for each mutant the one-sentence summary, what it needs to manifest, and the exact commands you ran to confirm (test suite with the change; demo with and without the change).
"""
for line in open("/verif/properties.jsonl"):
    d = json.loads(line)
    a = d["anchors"]
    anchors = ", ".join(a["files"]) if isinstance(a, dict) else str(a)
    q = d["quantifier"]
    text = TEMPLATE.format(id=d["id"], title=d["title"], statement=d["statement"], quant=q["text"] if isinstance(q, dict) else q,
                           anchors=anchors, note=(note + " ") if note else "", k1=k1, k2=k2)
    open(f"/tmp/mutant_prompt_{d['id']}.txt", "w").write(text)
print("written")
