(* C14 — interim: executable sanity examples; theorems are added when Gsm/ScanProofs.v lands *)
From Verif Require Import Base Regex Nfa Dfa.
Open Scope Z_scope.
Example C14_ex_no_overlap_at_end :
  find_all id_peqb id_accept_st [Plus [Atom 1]] [2; 1; 1] (fun _ => OK true) = OK [(1, 3)%nat].
Proof. vm_compute. reflexivity. Qed.
