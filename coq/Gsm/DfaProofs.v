(* DfaProofs.v — with stateless, pairwise disjoint predicates the lazy
   subset-construction matcher of Dfa.v never raises the ambiguity error and
   agrees with the NFA simulation, hence with the regular language:
   match_, starts_with, and totality of to_dfa (C13). *)
From Verif Require Import Base Regex Nfa Dfa ClosureProofs NfaProofs.
Open Scope nat_scope.

Section DfaProofs.
  Context {P I : Type}.
  Variable peqb : P -> P -> bool.
  Hypothesis peqb_spec : forall p q, peqb p q = true <-> p = q.
  Variable accepts : P -> I -> bool.
  Definition accept_st (p : P) (d : Z) (x : I) : bool * Z := (accepts p x, d).
  Definition disjoint (ps : list P) : Prop :=
    forall x p q, In p ps -> In q ps -> accepts p x = true -> accepts q x = true -> p = q.

  Notation heap := (heap P).
  Notation path := (path accepts).

  (* ---------- totality of to_dfa ---------- *)
  Theorem C13_build_dfa_total : forall e : expr P, wf e = true -> exists a, to_dfa e = OK a.
  Proof.
    intros e Hwf. destruct (build_total e Hwf) as (h & s & a & E).
    unfold to_dfa. rewrite E; cbv beta match.
    destruct (closure_total h [s]) as [st Est]. rewrite Est. eexists; reflexivity.
  Qed.

  (* ---------- predicate lists ---------- *)
  Lemma pmem_In p l : pmem peqb p l = true <-> In p l.
  Proof.
    induction l as [|q t IH]; cbn [pmem In].
    - split; [discriminate | tauto].
    - rewrite Bool.orb_true_iff, IH, peqb_spec. split; intros [H|H]; auto.
  Qed.

  Lemma pdedup_In p l : In p (pdedup peqb l) <-> In p l.
  Proof.
    induction l as [|q t IH]; cbn [pdedup In]; [tauto|].
    destruct (pmem peqb q (pdedup peqb t)) eqn:Hm.
    - apply pmem_In in Hm. rewrite IH. split; [auto|]. intros [<-|H]; [|exact H].
      apply IH; exact Hm.
    - cbn [In]. rewrite IH. tauto.
  Qed.

  Lemma pdedup_NoDup l : NoDup (pdedup peqb l).
  Proof.
    induction l as [|q t IH]; cbn [pdedup]; [constructor|].
    destruct (pmem peqb q (pdedup peqb t)) eqn:Hm; [exact IH|].
    constructor; [|exact IH]. intros Hin. apply pmem_In in Hin. congruence.
  Qed.

  Lemma dtrans_In (h : heap) T p :
    In p (dtrans peqb h T) <-> exists u t, In u T /\ In (p, t) (ntrans (get h u)).
  Proof.
    unfold dtrans. rewrite pdedup_In, in_flat_map. split.
    - intros (u & Hu & Hp). apply in_map_iff in Hp. destruct Hp as ([q t] & Heq & Hin).
      cbn [fst] in Heq; subst q. exists u, t; auto.
    - intros (u & t & Hu & Hin). exists u. split; [exact Hu|].
      apply in_map_iff. exists (p, t). auto.
  Qed.

  (* ---------- depth bookkeeping is inert ---------- *)
  Definition zeros (ds : (@depths P)) : Prop := Forall (fun pd => snd pd = 0%Z) ds.

  Lemma depth_of_zeros ds p : zeros ds -> depth_of peqb ds p = 0%Z.
  Proof.
    intros Hz; induction Hz as [|[q d] t Hd Ht IH]; cbn [depth_of]; [reflexivity|].
    cbn [snd] in Hd. destruct (peqb p q); [exact Hd | exact IH].
  Qed.

  Lemma set_depth_zeros ds p : zeros ds -> zeros (set_depth peqb ds p 0%Z).
  Proof.
    intros Hz; induction Hz as [|[q d] t Hd Ht IH]; cbn [set_depth].
    - constructor; [reflexivity | constructor].
    - destruct (peqb p q).
      + constructor; [reflexivity | exact Ht].
      + constructor; [exact Hd | exact IH].
  Qed.

  (* ---------- Pattern.consume ---------- *)
  Definition cstep (x : I) (acc : res ((@depths P) * option P)) (p : P)
    : res ((@depths P) * option P) :=
    match acc with
    | Err k => Err k
    | OK (ds, found) =>
        let '(b, d') := accept_st p (depth_of peqb ds p) x in
        let ds' := set_depth peqb ds p d' in
        if b then match found with Some _ => Err ValueErrorAmbiguous | None => OK (ds', Some p) end
        else OK (ds', found)
    end.

  Lemma consume_eq (a : automaton P) (pt : pat P) x :
    consume peqb accept_st a pt x =
    let h := a_heap a in
    let trans := dtrans peqb h (p_state pt) in
    let open := filter (fun p => (0 <? depth_of peqb (p_depths pt) p)%Z) trans in
    let cands := match open with [] => trans | _ => open end in
    match fold_left (cstep x) cands (OK (p_depths pt, None)) with
    | Err k => Err k
    | OK (_, None) => OK None
    | OK (ds, Some p) =>
        match closure h (move peqb h (p_state pt) p) with
        | Err k => Err k
        | OK T' => OK (Some (mkPat (p_start pt) T' ds (S (p_len pt))))
        end
    end.
  Proof. reflexivity. Qed.

  Lemma cstep_eq x (ds : @depths P) found p :
    cstep x (OK (ds, found)) p =
    if accepts p x
    then match found with
         | Some _ => Err ValueErrorAmbiguous
         | None => OK (set_depth peqb ds p (depth_of peqb ds p), Some p)
         end
    else OK (set_depth peqb ds p (depth_of peqb ds p), found).
  Proof. reflexivity. Qed.

  Lemma find_none_all {A} (f : A -> bool) l : (forall q, In q l -> f q = false) -> find f l = None.
  Proof.
    induction l as [|y t IH]; intros H; cbn [find]; [reflexivity|].
    rewrite (H y (or_introl eq_refl)). apply IH. intros q Hq; apply H; right; exact Hq.
  Qed.

  Lemma fold_cstep x : forall cands (ds : @depths P) found,
    zeros ds -> NoDup cands ->
    (forall p q, In p cands -> In q cands -> accepts p x = true -> accepts q x = true -> p = q) ->
    (found = None \/ forall q, In q cands -> accepts q x = false) ->
    exists ds', zeros ds' /\
      fold_left (cstep x) cands (OK (ds, found)) =
      OK (ds', match find (fun p => accepts p x) cands with Some p => Some p | None => found end).
  Proof.
    induction cands as [|p t IH]; intros ds found Hz Hnd Huniq Hf.
    - exists ds. split; [exact Hz | reflexivity].
    - cbn [fold_left find]. rewrite cstep_eq. rewrite (depth_of_zeros ds p Hz).
      inversion Hnd as [|p' t' Hnotin Hnd']; subst.
      assert (Huniq' : forall p0 q, In p0 t -> In q t -> accepts p0 x = true -> accepts q x = true -> p0 = q).
      { intros p0 q H1 H2. apply Huniq; right; assumption. }
      destruct (accepts p x) eqn:Hp; cbv beta match.
      + destruct Hf as [->|Hall]; [|specialize (Hall p (or_introl eq_refl)); congruence].
        assert (Hrej : forall q, In q t -> accepts q x = false).
        { intros q Hq. destruct (accepts q x) eqn:Hqx; [|reflexivity].
          exfalso. apply Hnotin. rewrite (Huniq p q (or_introl eq_refl) (or_intror Hq) Hp Hqx).
          exact Hq. }
        destruct (IH (set_depth peqb ds p 0%Z) (Some p) (set_depth_zeros ds p Hz) Hnd' Huniq'
                    (or_intror Hrej)) as (ds' & Hz' & Efold).
        exists ds'. split; [exact Hz'|]. rewrite Efold.
        rewrite (find_none_all _ t Hrej). reflexivity.
      + destruct (IH (set_depth peqb ds p 0%Z) found (set_depth_zeros ds p Hz) Hnd' Huniq')
          as (ds' & Hz' & Efold).
        { destruct Hf as [Hf|Hf]; [left; exact Hf|]. right. intros q Hq; apply Hf; right; exact Hq. }
        exists ds'. split; [exact Hz' | exact Efold].
  Qed.

  Lemma filter_all_false {A} (f : A -> bool) l : (forall y, In y l -> f y = false) -> filter f l = [].
  Proof.
    induction l as [|y t IH]; intros H; cbn [filter]; [reflexivity|].
    rewrite (H y (or_introl eq_refl)). apply IH. intros z Hz; apply H; right; exact Hz.
  Qed.

  Lemma filter_ext_in' {A} (f g : A -> bool) l : (forall y, In y l -> f y = g y) -> filter f l = filter g l.
  Proof.
    induction l as [|y t IH]; intros H; cbn [filter]; [reflexivity|].
    rewrite (H y (or_introl eq_refl)). rewrite IH; [reflexivity|].
    intros z Hz; apply H; right; exact Hz.
  Qed.

  Lemma flat_map_ext_in' {A B} (f g : A -> list B) l :
    (forall y, In y l -> f y = g y) -> flat_map f l = flat_map g l.
  Proof.
    induction l as [|y t IH]; intros H; cbn [flat_map]; [reflexivity|].
    rewrite (H y (or_introl eq_refl)). rewrite IH; [reflexivity|].
    intros z Hz; apply H; right; exact Hz.
  Qed.

  Lemma no_elem_nil {A} (l : list A) : (forall y, ~ In y l) -> l = [].
  Proof. destruct l as [|y t]; [reflexivity|]. intros H. exfalso. apply (H y). left; reflexivity. Qed.

  Section WithPreds.
    Variable ps : list P.
    Hypothesis Hdisj : disjoint ps.
    Variable a : automaton P.
    Hypothesis Hpreds : hpreds (a_heap a) (fun p => In p ps).

    Lemma consume_spec (pt : pat P) x :
      zeros (p_depths pt) ->
      exists T', closure (a_heap a) (nfa_step accepts (a_heap a) (p_state pt) x) = OK T' /\
        ((T' = [] /\ consume peqb accept_st a pt x = OK None) \/
         (T' <> [] /\ exists ds', zeros ds' /\
            consume peqb accept_st a pt x =
            OK (Some (mkPat (p_start pt) T' ds' (S (p_len pt)))))).
    Proof.
      intros Hz. rewrite consume_eq. cbv zeta.
      set (h := a_heap a) in *. set (T := p_state pt).
      rewrite (filter_all_false _ (dtrans peqb h T))
        by (intros p _; rewrite (depth_of_zeros _ p Hz); reflexivity).
      assert (Htr_ps : forall p, In p (dtrans peqb h T) -> In p ps).
      { intros p Hp. apply dtrans_In in Hp. destruct Hp as (u & t & _ & Hin).
        eapply Hpreds; exact Hin. }
      destruct (fold_cstep x (dtrans peqb h T) (p_depths pt) None Hz (pdedup_NoDup _))
        as (ds' & Hz' & Efold).
      { intros p q Hp Hq. apply Hdisj; apply Htr_ps; assumption. }
      { left; reflexivity. }
      rewrite Efold.
      destruct (closure_total h (nfa_step accepts h T x)) as [T' ET].
      exists T'. split; [exact ET|].
      destruct (closure_spec _ _ _ ET) as [Hspec _].
      destruct (find (fun p => accepts p x) (dtrans peqb h T)) as [p|] eqn:Ef.
      - apply find_some in Ef. destruct Ef as [Hp Hpx].
        right.
        assert (Hmove : move peqb h T p = nfa_step accepts h T x).
        { unfold move, nfa_step. apply flat_map_ext_in'. intros u Hu. f_equal.
          apply filter_ext_in'. intros [q t] Hin. cbn [fst].
          assert (Hq : In q ps) by (eapply Hpreds; exact Hin).
          destruct (accepts q x) eqn:Hqx.
          - apply peqb_spec. apply (Hdisj x q p Hq (Htr_ps p Hp) Hqx Hpx).
          - destruct (peqb q p) eqn:Hqp; [|reflexivity].
            apply peqb_spec in Hqp. subst q. congruence. }
        rewrite Hmove, ET. split.
        + apply dtrans_In in Hp. destruct Hp as (u & t & Hu & Hin).
          assert (Ht : In t T').
          { apply Hspec. exists t. split; [|apply er_refl].
            apply nfa_step_In. exists u, p. auto. }
          intros ->. exact Ht.
        + exists ds'. split; [exact Hz' | reflexivity].
      - left. split; [|reflexivity].
        apply no_elem_nil. intros t Ht. apply Hspec in Ht. destruct Ht as (m & Hm & _).
        apply nfa_step_In in Hm. destruct Hm as (u & p & Hu & Hin & Hpx).
        assert (Hp : In p (dtrans peqb h T)) by (apply dtrans_In; exists u, m; auto).
        pose proof (find_none _ _ Ef p Hp) as Hrej. cbv beta in Hrej. congruence.
    Qed.

    Definition acc_from (T : list nat) (v : list I) : Prop :=
      exists u, In u T /\ path (a_heap a) u v (a_acc a).

    Lemma run_all_spec : forall w (pt : pat P),
      zeros (p_depths pt) -> eclosed (a_heap a) (p_state pt) ->
      exists r, run_all peqb accept_st a pt w = OK r /\
        forall t, (match r with Some pt' => In t (p_state pt') | None => False end) <->
                  exists u, In u (p_state pt) /\ path (a_heap a) u w t.
    Proof.
      induction w as [|x w IH]; intros pt Hz Hc.
      - exists (Some pt). split; [reflexivity|]. intros t; split.
        + intros Ht. exists t. split; [exact Ht | apply path_nil].
        + intros (u & Hu & Hp). eapply path_nil_closed; eassumption.
      - cbn [run_all].
        destruct (consume_spec pt x Hz) as (T' & ET & [[-> Ec]|[Hne (ds' & Hz' & Ec)]]); rewrite Ec;
          destruct (step_sem accepts _ _ _ _ Hc ET) as [Hc' Hsem].
        + exists None. split; [reflexivity|]. intros t; split; [intros []|].
          intros Hex. apply Hsem in Hex. destruct Hex as (u' & [] & _).
        + destruct (IH (mkPat (p_start pt) T' ds' (S (p_len pt))) Hz' Hc') as (r & Er & Hr).
          exists r. split; [exact Er|]. intros t. rewrite Hr. cbn [p_state]. symmetry. apply Hsem.
    Qed.

    Lemma acc_from_nil T : eclosed (a_heap a) T -> (acc_from T [] <-> mem (a_acc a) T = true).
    Proof.
      intros Hc. rewrite mem_In. split.
      - intros (u & Hu & Hp). eapply path_nil_closed; eassumption.
      - intros Hin. exists (a_acc a). split; [exact Hin | apply path_nil].
    Qed.

    Lemma run_prefix_spec : forall w (pt : pat P),
      zeros (p_depths pt) -> eclosed (a_heap a) (p_state pt) ->
      exists r, run_prefix peqb accept_st a pt w = OK r /\
        forall k, r = Some k <->
          exists j, k = p_len pt + j /\ 1 <= j <= length w /\
                    acc_from (p_state pt) (firstn j w) /\
                    forall i, 1 <= i < j -> ~ acc_from (p_state pt) (firstn i w).
    Proof.
      induction w as [|x w IH]; intros pt Hz Hc.
      - exists None. split; [reflexivity|]. intros k; split; [discriminate|].
        intros (j & _ & Hj & _). cbn [length] in Hj. lia.
      - cbn [run_prefix].
        destruct (consume_spec pt x Hz) as (T' & ET & [[-> Ec]|[Hne (ds' & Hz' & Ec)]]); rewrite Ec;
          destruct (step_sem accepts _ _ _ _ Hc ET) as [Hc' Hsem].
        + exists None. split; [reflexivity|]. intros k; split; [discriminate|].
          intros (j & _ & Hj & Hacc & _). exfalso.
          destruct j as [|j]; [lia|]. cbn [firstn] in Hacc.
          apply Hsem in Hacc. destruct Hacc as (u' & [] & _).
        + assert (Hstep : forall j, acc_from (p_state pt) (firstn (S j) (x :: w)) <->
                                    acc_from T' (firstn j w)).
          { intros j. cbn [firstn]. apply Hsem. }
          unfold is_accepting. cbn [p_state p_len].
          destruct (mem (a_acc a) T') eqn:Hm.
          * exists (Some (S (p_len pt))). split; [reflexivity|]. intros k; split.
            -- intros Hk; inversion Hk; subst k. exists 1. split; [lia|].
               split; [cbn [length]; lia|]. split; [|intros i Hi; lia].
               apply (Hstep 0). cbn [firstn]. apply acc_from_nil; assumption.
            -- intros (j & -> & Hj & _ & Hmin).
               destruct (Nat.eq_dec j 1) as [->|Hj1]; [f_equal; lia|].
               exfalso. apply (Hmin 1); [lia|].
               apply (Hstep 0). cbn [firstn]. apply acc_from_nil; assumption.
          * assert (Hno : ~ acc_from T' []).
            { intros H. apply acc_from_nil in H; [congruence | exact Hc']. }
            destruct (IH (mkPat (p_start pt) T' ds' (S (p_len pt))) Hz' Hc') as (r & Er & Hr).
            cbn [p_state p_len] in Hr.
            exists r. split; [exact Er|]. intros k. rewrite Hr. split.
            -- intros (j & -> & Hj & Hacc & Hmin). exists (S j). split; [lia|].
               split; [cbn [length]; lia|]. split; [apply Hstep; exact Hacc|].
               intros i Hi. destruct i as [|i]; [lia|]. rewrite Hstep.
               destruct i as [|i]; [exact Hno|]. apply Hmin. lia.
            -- intros (j & -> & Hj & Hacc & Hmin). destruct j as [|j]; [lia|].
               cbn [length] in Hj. apply Hstep in Hacc.
               destruct j as [|j]; [exfalso; apply Hno; exact Hacc|].
               exists (S j). split; [lia|]. split; [lia|]. split; [exact Hacc|].
               intros i Hi. rewrite <- Hstep. apply Hmin. lia.
    Qed.
  End WithPreds.

  (* ---------- the automaton of a well-formed pattern ---------- *)
  Lemma to_dfa_sem (e : expr P) : wf e = true -> disjoint (preds_seq e) ->
    exists a, to_dfa e = OK a /\
      hpreds (a_heap a) (fun p => In p (preds_seq e)) /\
      eclosed (a_heap a) (a_start a) /\
      forall v, acc_from a (a_start a) v <-> lang accepts e v.
  Proof.
    intros Hwf Hd. destruct (build_correct accepts e Hwf) as (h & s & acc & E & HF).
    unfold to_dfa. rewrite E; cbv beta match.
    destruct (closure_total h [s]) as [st Est]. rewrite Est.
    exists (mkAut h st acc). split; [reflexivity|]. cbn [a_heap a_start a_acc].
    split; [intros u p t Hin; eapply build_preds; eassumption|].
    destruct (start_sem accepts h s acc st _ HF Est) as [Hc Hsem].
    split; [exact Hc|]. intros v. unfold acc_from. cbn [a_heap a_acc]. apply Hsem.
  Qed.

  Theorem C13_match : forall (e : expr P) w, wf e = true -> disjoint (preds_seq e) ->
    (exists b, match_ peqb accept_st e w = OK b) /\
    (match_ peqb accept_st e w = OK true <-> lang accepts e w).
  Proof.
    intros e w Hwf Hd. destruct (to_dfa_sem e Hwf Hd) as (a & Ea & Hp & Hc & Hsem).
    unfold match_. rewrite Ea.
    destruct (run_all_spec (preds_seq e) Hd a Hp w (new_pat a 0)) as (r & Er & Hr).
    { constructor. }
    { exact Hc. }
    rewrite Er. cbn [new_pat p_state] in Hr. destruct r as [pt|].
    - split; [eexists; reflexivity|]. unfold is_accepting.
      rewrite <- Hsem. unfold acc_from. rewrite <- Hr, <- mem_In.
      split; [intros H; inversion H; reflexivity | intros ->; reflexivity].
    - split; [eexists; reflexivity|]. split; [discriminate|].
      intros HL. apply Hsem in HL. apply Hr in HL. destruct HL.
  Qed.

  Theorem C13_starts_with : forall (e : expr P) w, wf e = true -> disjoint (preds_seq e) ->
    (exists r, starts_with peqb accept_st e w = OK r) /\
    (forall k, starts_with peqb accept_st e w = OK (Some k) <->
       (1 <= k <= length w)%nat /\ lang accepts e (firstn k w) /\
       forall j, (1 <= j < k)%nat -> ~ lang accepts e (firstn j w)).
  Proof.
    intros e w Hwf Hd. destruct (to_dfa_sem e Hwf Hd) as (a & Ea & Hp & Hc & Hsem).
    unfold starts_with, starts_with_dfa. rewrite Ea.
    destruct (run_prefix_spec (preds_seq e) Hd a Hp w (new_pat a 0)) as (r & Er & Hr).
    { constructor. }
    { exact Hc. }
    rewrite Er. cbn [new_pat p_state p_len] in Hr.
    split; [eexists; reflexivity|]. intros k. split.
    - intros H. inversion H as [Hk]. apply Hr in Hk.
      destruct Hk as (j & -> & Hj & Hacc & Hmin). cbn [Nat.add].
      split; [exact Hj|]. split; [apply Hsem; exact Hacc|].
      intros i Hi HL. apply (Hmin i Hi). apply Hsem; exact HL.
    - intros (Hk & HL & Hmin). f_equal. apply Hr. exists k. split; [reflexivity|].
      split; [exact Hk|]. split; [apply Hsem; exact HL|].
      intros i Hi Hacc. apply (Hmin i Hi). apply Hsem; exact Hacc.
  Qed.
End DfaProofs.
