"""Writes MANIFEST.json from the table below (kept in one place so it stays valid)."""
import json, os
V = os.path.dirname(os.path.dirname(os.path.abspath(__file__)))
props = [json.loads(l)["id"] for l in open(os.path.join(V, "properties.jsonl"))]
CHECKS = {
 "C02": dict(
   text="Coq theorems (Props/C02.v, 12) over definitions re-translated from /repo on every run: every threshold site "
        "equals the category function for all integers L; profile slots partition; check's exit status, per-file listing "
        "(filter > 30, stable descending sort), summary count and --quiet silence proved for every list of files by "
        "induction; findings cut-off proved for both formats. A changed comparison changes the theorem's subject and the "
        "kernel rejects the proof; the plumbing between the translated leaves is tied by differential runs of "
        "check_command on real files and of print_findings.",
   note="Trusted: Coq kernel; translate/pytocoq.py (leaf translator); the hand-written fold in Agg/CheckFlow.v for "
        "check_command/check_file glue (validated by correspondence); rich text rendering not modelled.",
   technique="Rocq proof over source-translated leaf definitions (lia, induction over file lists) + vm_compute correspondence",
   ref="DESIGN.md section 5, C02"),
}
checks = []
for p in props:
    if p in CHECKS:
        c = CHECKS[p]
        checks.append({"property_id": p, "quick_cmd": f"./check {p} --tier quick", "thorough_cmd": f"./check {p} --tier thorough",
                       "evidence_file": f"evidence/{p}.json", "replay_cmd_template": f"./check {p} --replay {{path}}",
                       "engine": "coq", "level_claimed": {"category": "proof", "text": c["text"], "design_ref": c["ref"]},
                       "level_note": c["note"], "technique": c["technique"]})
m = {"version": 1, "setup_cmd": "./setup.sh",
     "hooks": {"guard": "CODELIMIT_VERIF", "enable": "no source hooks: the harness imports /repo (PYTHONPATH=/repo) and wraps functions from its own process",
               "baseline_off_cmd": "cd /repo && /venv/bin/python -m pytest -q -p no:cacheprovider", "source_commits": [], "add_only": True},
     "engines": [{"name": "coq", "path": "coq/", "serves_properties": sorted(CHECKS), "kind_free_text": "Coq 8.16.1 development: models, proofs, generated definitions; harness/ drives it"}],
     "checks": checks,
     "not_applicable": [{"property_id": p, "reason": "check not built yet (build round in progress); see DESIGN.md section 9 staging"} for p in props if p not in CHECKS],
     "notes": "One entry point: ./check <id> --tier quick|thorough. See DESIGN.md."}
json.dump(m, open(os.path.join(V, "MANIFEST.json"), "w"), indent=1)
print("claimed:", sorted(CHECKS))
