(* ShapeProofsDef.v — the Python header pattern  [async] def Name groups  (no follow-up):
   its automaton, the greedy run, and get_headers = shape_headers cand_def follow_any. *)
From Verif Require Import Base Regex Nfa Dfa Token TokEngine GenPatterns Headers Blocks Spec HeaderSpec Scan ScanProofs.
From Verif Require Import Unamb UnambProofs LexShapes HeaderProofsDfa HeaderProofsSelect ShapeProofsGen.
Open Scope Z_scope.

Definition def_pattern : expr tpred :=
  [Opt [Atom (PKeyword s_async)]; Atom (PKeyword s_def); Atom PName; Plus [Atom Bal]].

Example cap_Python : patterns_Python = [(def_pattern, None)].
Proof. reflexivity. Qed.

Definition aD : automaton tpred :=
  Eval vm_compute in match tk_to_dfa def_pattern with OK a => a | Err _ => mkAut [] [] 0%nat end.
Lemma to_dfa_def : tk_to_dfa def_pattern = OK aD.
Proof. vm_compute. reflexivity. Qed.
Lemma okheap_aD : okheap aD = true.
Proof. vm_compute. reflexivity. Qed.

(* reachable states: start, after async, after def, after the name, in the groups *)
Definition D0 := [0; 1; 3]%nat.
Definition D1 := [2; 3]%nat.
Definition D2 := [5]%nat.
Definition D3 := [7; 9]%nat.
Definition D4 := [9; 10; 11]%nat.

Lemma start_aD : a_start aD = D0.
Proof. reflexivity. Qed.

Lemma aconsume_D0 x : aconsume aD D0 0 x =
  if kwt x s_async then OK (Some (D1, 0)) else if kwt x s_def then OK (Some (D2, 0)) else OK None.
Proof.
  unfold aconsume. cbv zeta.
  change (dtrans tpred_eqb (a_heap aD) D0) with [PKeyword s_async; PKeyword s_def].
  cbn [filter tpred_eqb Bal]. cbn [pfold tpred_eqb Bal taccept]. fold (kwt x s_async). fold (kwt x s_def).
  destruct (kwt x s_async) eqn:E1.
  - rewrite (kwt_excl x s_async s_def eq_refl E1). reflexivity.
  - destruct (kwt x s_def); reflexivity.
Qed.

Lemma aconsume_D1 x : aconsume aD D1 0 x = if kwt x s_def then OK (Some (D2, 0)) else OK None.
Proof.
  unfold aconsume. cbv zeta.
  change (dtrans tpred_eqb (a_heap aD) D1) with [PKeyword s_def].
  cbn [filter tpred_eqb Bal]. cbn [pfold tpred_eqb Bal taccept]. fold (kwt x s_def).
  destruct (kwt x s_def); reflexivity.
Qed.

Lemma aconsume_D2 x : aconsume aD D2 0 x = if is_name x then OK (Some (D3, 0)) else OK None.
Proof.
  unfold aconsume. cbv zeta.
  change (dtrans tpred_eqb (a_heap aD) D2) with [PName].
  cbn [filter tpred_eqb Bal]. cbn [pfold tpred_eqb Bal taccept].
  destruct (is_name x); reflexivity.
Qed.

Lemma arun_D3 n w :
  arun aD D3 0 n w = OK (match groups_opt w with Some k => Some (n + k)%nat | None => None end).
Proof. apply (arun_pregroups aD D4); reflexivity. Qed.

(* def Name groups, as a length *)
Definition def_tail (w : list token) : option nat :=
  match w with
  | t :: u :: r => if kwt t s_def && is_name u then
                     match groups_opt r with Some k => Some (2 + k)%nat | None => None end
                   else None
  | _ => None
  end.

Lemma arun_D2 n w :
  arun aD D2 0 n w = OK (match w with
                         | u :: r => if is_name u then match groups_opt r with Some k => Some (S n + k)%nat | None => None end else None
                         | [] => None end).
Proof.
  destruct w as [|u r]; [reflexivity|]. cbn [arun]. rewrite aconsume_D2.
  destruct (is_name u); [|reflexivity]. apply arun_D3.
Qed.

Lemma arun_D1 n w :
  arun aD D1 0 n w = OK (match def_tail w with Some k => Some (n + k)%nat | None => None end).
Proof.
  destruct w as [|t w]; [reflexivity|]. cbn [arun def_tail]. rewrite aconsume_D1.
  destruct (kwt t s_def); cbn [andb].
  - rewrite arun_D2. destruct w as [|u r]; [reflexivity|]. destruct (is_name u); [|reflexivity].
    destruct (groups_opt r); [|reflexivity]. f_equal. f_equal. lia.
  - destruct w; reflexivity.
Qed.

Definition def_len (w : list token) : option nat :=
  match w with
  | t :: r => if kwt t s_async then match def_tail r with Some k => Some (S k) | None => None end
              else def_tail w
  | [] => None
  end.

Lemma arun_D0 w : arun aD D0 0 0 w = OK (def_len w).
Proof.
  destruct w as [|t w]; [reflexivity|]. cbn [arun def_len]. rewrite aconsume_D0.
  destruct (kwt t s_async) eqn:Ea.
  - rewrite arun_D1. destruct (def_tail w); reflexivity.
  - cbn [def_tail]. destruct (kwt t s_def); cbn [andb].
    + rewrite arun_D2. destruct w as [|u r]; [reflexivity|]. destruct (is_name u); [|reflexivity].
      destruct (groups_opt r); reflexivity.
    + destruct w; reflexivity.
Qed.

(* ---------- the specification's candidate, on the suffix ---------- *)
Lemma cand_def_len w : cand_end_of cand_def w 0 = def_len w.
Proof.
  unfold cand_end_of, cand_def, kw_at, name_at.
  destruct w as [|t w]; [reflexivity|]. cbn [nth_error def_len]. unfold kwt.
  destruct (is_keyword t && pystr_eqb (t_value t) s_async) eqn:Ea.
  - destruct w as [|t1 w]; [reflexivity|]. cbn [nth_error def_tail]. unfold kwt.
    destruct w as [|t2 w]; cbn [nth_error]; [rewrite andb_false_r; reflexivity|].
    destruct (is_keyword t1 && pystr_eqb (t_value t1) s_def && is_name t2); [|reflexivity].
    rewrite groups_end_opt. cbn [skipn]. destruct (groups_opt w); reflexivity.
  - cbn [def_tail]. unfold kwt.
    destruct w as [|t1 w]; cbn [nth_error]; [rewrite andb_false_r; reflexivity|].
    destruct (is_keyword t && pystr_eqb (t_value t) s_def && is_name t1); [|reflexivity].
    rewrite groups_end_opt. cbn [skipn]. destruct (groups_opt w); reflexivity.
Qed.

Lemma shift_inv_def : shift_inv cand_def.
Proof.
  split.
  - intros t ts i. unfold cand_def, kw_at, name_at, groups_end, sym_at. cbn [nth_error].
    destruct (match nth_error ts i with Some t0 => is_keyword t0 && pystr_eqb (t_value t0) s_async | None => false end);
      cbn [nth_error skipn];
      match goal with |- context [if ?b then _ else None] => destruct b end; cbn [shift1]; try reflexivity;
      match goal with |- context [if ?b then _ else None] => destruct b end; cbn [shift1]; reflexivity.
  - intros i. unfold cand_def, kw_at, name_at. rewrite !nth_error_nil_any. reflexivity.
Qed.

Theorem greedy_aD ts i : greedy tpred_eqb taccept_st aD ts i = OK (cand_end_of cand_def ts i).
Proof.
  apply (greedy_of_arun aD cand_def okheap_aD shift_inv_def).
  intros w. rewrite start_aD, arun_D0, cand_def_len. reflexivity.
Qed.

(* ---------- the name of a match ---------- *)
Lemma name_index_def ts i n j : cand_def ts i = Some (n, j) -> name_index ts i j = OK n.
Proof.
  unfold cand_def. destruct (kw_at ts i s_async) eqn:Ea.
  - destruct (kw_at ts (S i) s_def) eqn:Ed; [|discriminate]. cbn [andb].
    destruct (name_at ts (S (S i))) eqn:En; [|discriminate].
    destruct (groups_end ts (S (S (S i)))) as [j'|] eqn:Eg; [|discriminate]. intros [= <- <-].
    apply groups_end_lt in Eg.
    rewrite (name_index_kw ts i j' s_async Ea) by lia.
    rewrite (name_index_kw ts (S i) j' s_def Ed) by lia.
    apply name_index_0; [exact En | lia].
  - destruct (kw_at ts i s_def) eqn:Ed; [|discriminate]. cbn [andb].
    destruct (name_at ts (S i)) eqn:En; [|discriminate].
    destruct (groups_end ts (S (S i))) as [j'|] eqn:Eg; [|discriminate]. intros [= <- <-].
    apply groups_end_lt in Eg.
    rewrite (name_index_kw ts i j' s_def Ed) by lia.
    apply name_index_0; [exact En | lia].
Qed.

Theorem def_headers_spec : forall ts : list token,
  get_headers ts def_pattern None = OK (shape_headers cand_def follow_any ts).
Proof.
  intros ts. apply (get_headers_shape_none def_pattern aD cand_def ts to_dfa_def).
  - apply greedy_aD.
  - apply name_index_def.
Qed.

Theorem extract_headers_Python : forall ts, extract_headers LPython ts = OK (lexical_headers_Python ts).
Proof.
  intros ts. unfold extract_headers, lang_patterns. rewrite cap_Python. cbn [headers_of_patterns].
  rewrite def_headers_spec, app_nil_r. reflexivity.
Qed.

Print Assumptions extract_headers_Python.
