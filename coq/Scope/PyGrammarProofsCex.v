(* PyGrammarProofsCex.v — why a line of the canonical Python grammar (Scope/PyGrammar.v, line_at) must not END
   with the keyword `async`: the header pattern `[async] def name (...)` pays no attention to line breaks, so
   a stray `async` at the end of the line before a definition line is taken into the header — the function
   would be reported from the `async` token (one line too early, one line too long).  Two token streams
   which the grammar generated before the restriction, with the headers the lexical specification (and the
   tool) finds in them; by py_canonical_lexical neither is a canonical program now. *)
From Verif Require Import Base Regex Token TokEngine Lex LexProofs Headers Blocks Pairing Fold ScanFile Spec HeaderSpec
  LexShapes PySpec PySpecProofs PySpecCheck PyLexical Grammar GrammarAll PyGrammar.
From Verif Require Import PyGrammarProofsLex.
Open Scope Z_scope.

(* 1: async / 2: def f ( ) : / 3:     x *)
Definition cex_async_line : list token :=
 [mkTok KKeyword s_async 1 1;
  mkTok KKeyword s_def 2 1; mkTok KName [102] 2 5; mkTok KPunct [40] 2 6; mkTok KPunct [41] 2 7; mkTok KPunct [58] 2 8;
  mkTok KName [120] 3 5].
(* the descriptor the grammar generated: f starts at token 1 (`def`) *)
Definition cex_async_line_ds : list pydesc := [mkPd 2 1 5 6 7]%nat.

(* the header starts at token 0, the stray `async`, not at token 1 *)
Example cex_async_line_headers :
  lexical_headers_Python cex_async_line = [mkHeader 2 0 5]%nat /\
  map py_header_of cex_async_line_ds = [mkHeader 2 1 5]%nat /\
  py_wf_descs_b cex_async_line cex_async_line_ds = true /\
  py_lexically_canonical_b cex_async_line cex_async_line_ds = false.
Proof. vm_compute. repeat split; reflexivity. Qed.

(* the tool reports f from line 1 with 3 lines; the property prescribes line 2 and 2 lines *)
Example cex_async_line_scan :
  filter_tokens false cex_async_line = cex_async_line /\ filter_nocl_comment_tokens cex_async_line = [] /\
  scan_file LPython cex_async_line = OK [mkMeas [102] (mkLoc 1 1) (mkLoc 3 6) 3] /\
  py_expected_all cex_async_line cex_async_line_ds cex_async_line_ds = OK [mkMeas [102] (mkLoc 2 1) (mkLoc 3 6) 2].
Proof. vm_compute. repeat split; reflexivity. Qed.

Example cex_async_line_not_canonical : ~ py_canonical_program cex_async_line cex_async_line_ds.
Proof.
  intros H. apply py_canonical_headers in H.
  destruct cex_async_line_headers as (E1 & E2 & _). rewrite E1, E2 in H. discriminate H.
Qed.

(* the same with `async` ending the rest of an enclosing definition line:
   1: def f ( ) : async / 2:     def g ( ) : / 3:         x *)
Definition cex_async_rest : list token :=
 [mkTok KKeyword s_def 1 1; mkTok KName [102] 1 5; mkTok KPunct [40] 1 6; mkTok KPunct [41] 1 7; mkTok KPunct [58] 1 8; mkTok KKeyword s_async 1 10;
  mkTok KKeyword s_def 2 5; mkTok KName [103] 2 9; mkTok KPunct [40] 2 10; mkTok KPunct [41] 2 11; mkTok KPunct [58] 2 12;
  mkTok KName [120] 3 9].
Definition cex_async_rest_ds : list pydesc := [mkPd 1 0 4 6 12; mkPd 7 6 10 11 12]%nat.

(* the header of g starts at token 5, the `async` that ends line 1, not at token 6 *)
Example cex_async_rest_headers :
  lexical_headers_Python cex_async_rest = [mkHeader 1 0 4; mkHeader 7 5 10]%nat /\
  map py_header_of cex_async_rest_ds = [mkHeader 1 0 4; mkHeader 7 6 10]%nat /\
  py_wf_descs_b cex_async_rest cex_async_rest_ds = true /\
  py_lexically_canonical_b cex_async_rest cex_async_rest_ds = false.
Proof. vm_compute. repeat split; reflexivity. Qed.

Example cex_async_rest_not_canonical : ~ py_canonical_program cex_async_rest cex_async_rest_ds.
Proof.
  intros H. apply py_canonical_headers in H.
  destruct cex_async_rest_headers as (E1 & E2 & _). rewrite E1, E2 in H. discriminate H.
Qed.
