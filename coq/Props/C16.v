(* C16 — token positions are faithful to the source text.  Statements only;
   proofs in Tok/LexProofs.v over the model Tok/Lex.v of lexer_utils.lex,
   for every text and every lexer output satisfying the Pygments contract
   (offsets start at 0, are contiguous, texts concatenate to the input). *)
From Verif Require Import Base Token Lex LexProofs LexPadProofs GenCompare TieProofs.
From Coq Require Import Sorted.
Open Scope Z_scope.

(* the 1-based line is 1 + the number of line breaks before the token, the column counts from the line start *)
Theorem C16_line_and_column : forall code lts lt t, contract code lts -> kept_pair code lts lt t ->
  t_kind t = lt_kind lt /\ t_value t = lt_val lt /\
  t_line t = 1 + count_nl (firstn (Z.to_nat (lt_off lt)) code) /\
  t_col t = lt_off lt - line_start (firstn (Z.to_nat (lt_off lt)) code) + 1.
Proof. exact C16_line_is_count. Qed.

(* the reported position is where the token's text occurs in the input *)
Theorem C16_position_faithful : forall code lts lt t, contract code lts -> kept_pair code lts lt t ->
  location_to_index code (t_line t) (t_col t) = OK (lt_off lt).
Proof. exact C16_position. Qed.
Theorem C16_text_at_position : forall code lts fc t, contract code lts -> In t (lex code lts fc) ->
  exists off, location_to_index code (t_line t) (t_col t) = OK off /\ 0 <= off /\
    off + Z.of_nat (length (t_value t)) <= Z.of_nat (length code) /\
    firstn (length (t_value t)) (skipn (Z.to_nat off) code) = t_value t.
Proof. intros code lts fc t. exact (C16_text_lex code lts fc t). Qed.

(* strictly increasing source order, no overlap *)
Theorem C16_strictly_increasing : forall code lts fc, contract code lts ->
  StronglySorted pos_lt (lex code lts fc).
Proof. exact C16_strictly_increasing_lex. Qed.
Theorem C16_no_overlap : forall code lts fc, contract code lts ->
  StronglySorted (fun t1 t2 => disjoint_on_line t1 t2 /\ disjoint_offsets code t1 t2) (lex code lts fc).
Proof. exact C16_disjoint_lex. Qed.

(* white space is never kept; comments exactly when requested; everything else always *)
Theorem C16_filtering : forall code lts fc t,
  In t (lex code lts fc) <->
  In t (locate code lts) /\ is_whitespace t = false /\ (fc = true -> is_comment t = false).
Proof. exact C16_lex_In. Qed.

(* the single-line fast path of lex() is only an optimisation *)
Theorem C16_fast_path : forall code lts,
  locate code lts = lex_loop (filter nonempty lts) (newline_indices code) 0 0.
Proof. exact locate_is_loop. Qed.

(* ---- lex() as the implementation runs it (GD24): the lexer is called on the text with a final line break ensured
        (lts is its output on [pad_nl code]) and the padding is dropped from the tokens again ---- *)
Theorem C16_padding_dropped : forall code lts, contract (pad_nl code) lts ->
  contract code (trim_pad code lts) /\
  (forall t, In t lts -> nonempty t = true ->
     lt_off t + Z.of_nat (length (lt_val t)) <= Z.of_nat (length code) -> In t (trim_pad code lts)).
Proof.
  intros code lts H. split; [exact (contract_trim_pad code lts H)|].
  intros t Ht Hn Hl. exact (trim_pad_keeps code lts t H Ht Hn Hl).
Qed.
Theorem C16_file_line_and_column : forall code lts lt t, contract (pad_nl code) lts -> kept_pair code (trim_pad code lts) lt t ->
  t_kind t = lt_kind lt /\ t_value t = lt_val lt /\
  t_line t = 1 + count_nl (firstn (Z.to_nat (lt_off lt)) code) /\
  t_col t = lt_off lt - line_start (firstn (Z.to_nat (lt_off lt)) code) + 1.
Proof. exact C16F_line_and_column. Qed.
Theorem C16_file_text_at_position : forall code lts fc t, contract (pad_nl code) lts -> In t (lex_file code lts fc) ->
  exists off, location_to_index code (t_line t) (t_col t) = OK off /\ 0 <= off /\
    off + Z.of_nat (length (t_value t)) <= Z.of_nat (length code) /\
    firstn (length (t_value t)) (skipn (Z.to_nat off) code) = t_value t.
Proof. exact C16F_text_at_position. Qed.
Theorem C16_file_strictly_increasing : forall code lts fc, contract (pad_nl code) lts ->
  StronglySorted pos_lt (lex_file code lts fc).
Proof. exact C16F_strictly_increasing. Qed.
Theorem C16_file_no_overlap : forall code lts fc, contract (pad_nl code) lts ->
  StronglySorted (fun t1 t2 => disjoint_on_line t1 t2 /\ disjoint_offsets code t1 t2) (lex_file code lts fc).
Proof. exact C16F_no_overlap. Qed.
Theorem C16_file_filtering : forall code lts fc t,
  In t (lex_file code lts fc) <->
  In t (locate code (trim_pad code lts)) /\ is_whitespace t = false /\ (fc = true -> is_comment t = false).
Proof. exact C16F_filtering. Qed.

(* the line-advance test of the model is the one lex() states (regenerated from lexer_utils.py on this run) *)
Theorem C16_operator_tied : forall i rest n ls off,
  advance (i :: rest) n ls off = if lex_past_newline off i then advance rest (n + 1) (i + 1) off else (i :: rest, n, ls).
Proof. exact tie_lex_advance. Qed.
(* ... and so are the line / column arithmetic, the single-line fast path and the trimming of the padding *)
Theorem C16_arithmetic_tied :
  (forall t idx n ls r, lex_loop (t :: r) idx n ls =
     let '(idx', n', ls') := advance idx n ls (lt_off t) in
     mkTok (lt_kind t) (lt_val t) (lex_line_number n') (lex_column (lt_off t) ls') :: lex_loop r idx' n' ls') /\
  (forall i rest n ls off, advance (i :: rest) n ls off =
     if off >? i then advance rest (lex_line_number n) (lex_next_line_start i) off else (i :: rest, n, ls)) /\
  (forall n t, trim_tok n t = mkLtok (lt_off t) (lt_kind t) (firstn (Z.to_nat (lex_trim_length n (lt_off t))) (lt_val t))) /\
  (forall code lts, newline_indices code = [] ->
     locate code lts = map (fun t => mkTok (lt_kind t) (lt_val t) 1 (lex_single_line_column (lt_off t))) (filter nonempty lts)).
Proof. split; [exact tie_lex_position|]. split; [exact tie_lex_advance2|]. split; [exact tie_lex_trim|exact tie_lex_single_line]. Qed.

Print Assumptions C16_padding_dropped.
Print Assumptions C16_operator_tied.
Print Assumptions C16_arithmetic_tied.
Print Assumptions C16_file_line_and_column.
Print Assumptions C16_file_text_at_position.
Print Assumptions C16_file_strictly_increasing.
Print Assumptions C16_file_no_overlap.
Print Assumptions C16_file_filtering.
Print Assumptions C16_line_and_column.
Print Assumptions C16_position_faithful.
Print Assumptions C16_text_at_position.
Print Assumptions C16_strictly_increasing.
Print Assumptions C16_no_overlap.
Print Assumptions C16_filtering.
Print Assumptions C16_fast_path.

(* non-vacuity: "a\n (b" with a zero-length token in between *)
Example C16_example :
  lex [97; 10; 32; 40; 98] [mkLtok 0 KName [97]; mkLtok 1 KText [10; 32]; mkLtok 3 KText []; mkLtok 3 KPunct [40]; mkLtok 4 KName [98]] true
  = [mkTok KName [97] 1 1; mkTok KPunct [40] 2 2; mkTok KName [98] 2 3].
Proof. vm_compute. reflexivity. Qed.
