(* PercentFloat.v — what Report.quality_profile_percentage may return when its three
   `ceil(share * 100 - 0.001)` are evaluated in binary floating point: each is the ceiling of SOME
   value within 10^-12 of the exact rational value of that expression (the rounding errors of one
   division, one multiplication and one subtraction of doubles below 101 stay below 10^-13), and
   the rest of the function (the surplus adjustment, the easy remainder) is applied to them as the
   source states it (Gen/GenPercent.v: quality_profile_adjust, share_expr_*: regenerated on
   every run).  The exact-arithmetic model of Percent.v is one admissible outcome; at shares of
   exactly n.001 % the floating-point outcome really differs from it (9001 of 100000 lines: 10 %
   instead of 9 %), which is why the C19 theorems are stated for every admissible outcome. *)
From Verif Require Import Base GenPercent Percent.
Open Scope Z_scope.

Definition tol_den : Z := 1000000000000.          (* 10^12 *)

(* r = ceil y' for some y' with |y' - num/den| <= 1/tol_den   (den > 0) *)
Definition ceil_lo (num den : Z) : Z := cdiv (num * tol_den - den) (den * tol_den).
Definition ceil_hi (num den : Z) : Z := cdiv (num * tol_den + den) (den * tol_den).
Definition ceil_within (num den r : Z) : Prop := ceil_lo num den <= r <= ceil_hi num den.

Definition may_show (p : list Z) (out : Z * Z * Z * Z) : Prop :=
  let total := sumZ p in
  exists cv ch cu,
    (0 < total ->
       ceil_within (share_expr_num_1 p total) (share_expr_den_1 p total) cv /\
       ceil_within (share_expr_num_2 p total) (share_expr_den_2 p total) ch /\
       ceil_within (share_expr_num_3 p total) (share_expr_den_3 p total) cu) /\
    out = quality_profile_adjust p cv ch cu.

(* decision procedure used by the correspondence runs: the implementation's output must be admissible *)
Definition cands (num den : Z) : list Z :=
  let lo := ceil_lo num den in let hi := ceil_hi num den in if lo =? hi then [lo] else [lo; hi].
Definition out_eqb (a b : Z * Z * Z * Z) : bool :=
  let '(a1, a2, a3, a4) := a in let '(b1, b2, b3, b4) := b in (a1 =? b1) && (a2 =? b2) && (a3 =? b3) && (a4 =? b4).
Definition may_show_b (p : list Z) (out : Z * Z * Z * Z) : bool :=
  let total := sumZ p in
  if 0 <? total then
    existsb (fun cv => existsb (fun ch => existsb (fun cu => out_eqb out (quality_profile_adjust p cv ch cu))
                                                 (cands (share_expr_num_3 p total) (share_expr_den_3 p total)))
                               (cands (share_expr_num_2 p total) (share_expr_den_2 p total)))
            (cands (share_expr_num_1 p total) (share_expr_den_1 p total))
  else out_eqb out (quality_profile_adjust p 0 0 0).

(* the three displayed figures of an outcome, and the verdicts computed from it *)
Definition shown_of (out : Z * Z * Z * Z) : Z * Z * Z := let '(e, v, h, u) := out in (e + v, h, u).
