(* C05 — every reported measurement is well-formed, for every input.
   Statements only; proofs in Scope/WfProofs*.v, Gsm/DistinctStartProofs.v.
   The hypothesis on token positions is what the lexing model guarantees (C16). *)
From Verif Require Import Base Token Lex LexProofs Headers Blocks Pairing Fold ScanFile WfProofs WfProofsCerts.
From Coq Require Import Sorted.

(* wf_meas code m: m starts at the position of a code token, ends just past a code token, start
   index < end index, its name is the text of an identifier token inside the span, and
   1 <= length <= number of distinct lines of code tokens of the span *)
Theorem C05_wellformed : forall l toks ms,
  StronglySorted pos_lt (filter_tokens false toks) -> scan_file l toks = OK ms ->
  Forall (wf_meas (filter_tokens false toks)) ms.
Proof. exact WfProofs.C05_wellformed. Qed.

(* listed in source order with pairwise distinct starts — all seven languages (JavaScript and
   TypeScript through the kernel-computed distinct-start certificate on the captured patterns) *)
Theorem C05_source_order : forall l toks ms,
  StronglySorted pos_lt (filter_tokens false toks) -> scan_file l toks = OK ms ->
  StronglySorted loc_lt (map m_start ms).
Proof. exact C05_source_order_all. Qed.

(* the file's line total is the sum of its function lengths *)
Theorem C05_loc_is_sum : forall l code_text lts ms loc,
  analyze l code_text lts = OK (ms, loc) -> loc = fold_right (fun m a => (m_value m + a)%Z) 0%Z ms.
Proof. exact WfProofs.C05_loc_is_sum. Qed.

(* end to end from the lexer contract (any text, any lexer output satisfying it) *)
Theorem C05_analyze : forall l code_text lts ms loc,
  contract code_text lts -> analyze l code_text lts = OK (ms, loc) ->
  Forall (wf_meas (filter_tokens false (lex code_text lts false))) ms /\
  StronglySorted loc_lt (map m_start ms) /\
  loc = fold_right (fun m a => (m_value m + a)%Z) 0%Z ms.
Proof. exact WfProofsCerts.C05_analyze. Qed.

Print Assumptions C05_wellformed.
Print Assumptions C05_source_order.
Print Assumptions C05_loc_is_sum.
Print Assumptions C05_analyze.

Open Scope Z_scope.
(* the input that was mis-measured before the GD22 repair: f is no longer reported with a span
   that does not contain its name *)
Example C05_ex_gd22 :
  scan_file LPython
    [mkTok KKeyword [100;101;102] 1 1; mkTok KName [111] 1 5; mkTok KPunct [40] 1 6; mkTok KPunct [41] 1 7; mkTok KPunct [58] 1 8;
     mkTok KKeyword [100;101;102] 2 3; mkTok KName [103] 2 7; mkTok KPunct [40] 2 8; mkTok KPunct [41] 2 9; mkTok KPunct [58] 2 10;
     mkTok KKeyword [97;115;121;110;99] 3 5;
     mkTok KKeyword [100;101;102] 4 3; mkTok KName [102] 4 7; mkTok KPunct [40] 4 8; mkTok KPunct [41] 4 9; mkTok KPunct [58] 4 10;
     mkTok KKeyword [112;97;115;115] 4 12; mkTok KName [120] 5 3]
  = OK [mkMeas [111] (mkLoc 1 1) (mkLoc 5 4) 3; mkMeas [103] (mkLoc 2 3) (mkLoc 3 10) 2].
Proof. vm_compute. reflexivity. Qed.
