"""Confirm and evaluate the two seeded changes of /tmp/mut_<Cnn> and keep them under /verif/seeded/.
usage: [MUT_KS=3,4] keep_mutants.py <Cnn> <check> [<check> ...]"""
import json
import os
import shutil
import subprocess
import sys

prop, checks = sys.argv[1], sys.argv[2:]
src = f"/tmp/mut_{prop}"
for k in [int(x) for x in os.environ.get("MUT_KS", "1,2").split(",")]:
    patch, demo, meta = f"{src}/mutant_{k}.diff", f"{src}/demo_{k}.py", f"{src}/meta_{k}.json"
    if not (os.path.exists(patch) and os.path.exists(demo)):
        print("missing", patch)
        continue
    r = subprocess.run(["/venv/bin/python", "/verif/tools/eval_mutant.py", patch, demo] + checks, capture_output=True, text=True)
    try:
        res = json.loads(r.stdout[r.stdout.index("{"):])
    except Exception:
        print("evaluation failed", r.stdout[-500:], r.stderr[-500:])
        continue
    confirmed = res.get("suite", "").startswith("157 passed") and res.get("demo_with") == 1 and res.get("demo_without") == 0
    m = json.load(open(meta)) if os.path.exists(meta) else {}
    caught = [c for c, v in res["checks"].items() if v["exit"] == 1 and v["violations"] > 0]
    out = {"property": prop, "summary": m.get("summary"), "needs": m.get("needs"), "files": m.get("files"),
           "confirmed": confirmed,
           "what_i_ran": [f"git -C /repo apply patch.diff; cd /repo && /venv/bin/python -m pytest -q -p no:cacheprovider -> {res.get('suite')}",
                          f"PYTHONPATH=/repo /venv/bin/python demo.py -> exit {res.get('demo_with')} with the change, exit {res.get('demo_without')} without",
                          "for each check: ./check <id> --tier quick against the changed /repo; git -C /repo checkout -- ."],
           "checks_run": {c: {"exit": v["exit"], "violations": v["violations"], "first_report": v["first"]} for c, v in res["checks"].items()},
           "caught_by": caught}
    print(prop, k, "confirmed" if confirmed else "NOT CONFIRMED", "caught by", caught, "|", (m.get("summary") or "")[:100])
    if confirmed:
        d = f"/verif/seeded/{prop}-{k}"
        os.makedirs(d, exist_ok=True)
        shutil.copy(patch, f"{d}/patch.diff")
        import re
        open(f"{d}/demo.py", "w").write(re.sub(r"/tmp/wt_C\d+", "/repo", open(demo).read()))
        json.dump(out, open(f"{d}/meta.json", "w"), indent=1)
