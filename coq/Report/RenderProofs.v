(* RenderProofs.v — property C18: the rendered overview shows exactly the
   stored numbers.  Part B (cells) and part C (rows, order, totals, the two
   output formats).  The definitions of Gen/GenDelta.v are generated from the
   Python source; every fact about them is proved by unfolding them, so a change
   of the source breaks the proof.  Stdlib only; no axioms. *)
From Verif Require Import Base BaseProofs GenDelta Render RenderProofsNum.
From Coq Require Import Permutation Sorted.
Open Scope Z_scope.

(* ================= B. cells ================= *)
(* "cur" when nothing changed, "cur (+d)" / "cur (-d)" otherwise *)
Definition cell (cur delta : Z) : pystr :=
  if delta =? 0 then fmt_n cur else fmt_n cur ++ [32; 40] ++ fmt_plus_n delta ++ [41].

Ltac unfold_attrs :=
  unfold f_files, f_functions, f_loc, f_hard_to_maintain, f_unmaintainable,
         lt_has_files, lt_has_functions, lt_has_loc, lt_has_htm, lt_has_unm.

(* ---------- B1: LanguageTotalsDelta ---------- *)
Lemma ltd_files_some t q :
  ltd_files t (Some q) = cell (lt_files t) (lt_files t - lt_files q).
Proof. unfold ltd_files, cell. cbv zeta. unfold_attrs. reflexivity. Qed.
Lemma ltd_functions_some t q :
  ltd_functions t (Some q) = cell (lt_functions t) (lt_functions t - lt_functions q).
Proof. unfold ltd_functions, cell. cbv zeta. unfold_attrs. reflexivity. Qed.
Lemma ltd_loc_some t q :
  ltd_loc t (Some q) = cell (lt_loc t) (lt_loc t - lt_loc q).
Proof. unfold ltd_loc, cell. cbv zeta. unfold_attrs. reflexivity. Qed.
Lemma ltd_hard_to_maintain_some t q :
  ltd_hard_to_maintain t (Some q) =
  cell (lt_hard_to_maintain t) (lt_hard_to_maintain t - lt_hard_to_maintain q).
Proof. unfold ltd_hard_to_maintain, cell. cbv zeta. unfold_attrs. reflexivity. Qed.
Lemma ltd_unmaintainable_some t q :
  ltd_unmaintainable t (Some q) =
  cell (lt_unmaintainable t) (lt_unmaintainable t - lt_unmaintainable q).
Proof. unfold ltd_unmaintainable, cell. cbv zeta. unfold_attrs. reflexivity. Qed.

Lemma ltd_files_none t : ltd_files t None = cell (lt_files t) (lt_files t).
Proof. unfold ltd_files, cell. cbv zeta. unfold_attrs. rewrite Z.sub_0_r. reflexivity. Qed.
Lemma ltd_functions_none t : ltd_functions t None = cell (lt_functions t) (lt_functions t).
Proof. unfold ltd_functions, cell. cbv zeta. unfold_attrs. rewrite Z.sub_0_r. reflexivity. Qed.
Lemma ltd_loc_none t : ltd_loc t None = cell (lt_loc t) (lt_loc t).
Proof. unfold ltd_loc, cell. cbv zeta. unfold_attrs. rewrite Z.sub_0_r. reflexivity. Qed.
Lemma ltd_hard_to_maintain_none t :
  ltd_hard_to_maintain t None = fmt_n (lt_hard_to_maintain t).
Proof. unfold ltd_hard_to_maintain. cbv zeta. unfold_attrs. reflexivity. Qed.
Lemma ltd_unmaintainable_none t :
  ltd_unmaintainable t None = fmt_n (lt_unmaintainable t).
Proof. unfold ltd_unmaintainable. cbv zeta. unfold_attrs. reflexivity. Qed.

Theorem ltd_cells : forall t p,
  match p with
  | Some q =>
      ltd_files t p = cell (lt_files t) (lt_files t - lt_files q) /\
      ltd_functions t p = cell (lt_functions t) (lt_functions t - lt_functions q) /\
      ltd_loc t p = cell (lt_loc t) (lt_loc t - lt_loc q) /\
      ltd_hard_to_maintain t p =
        cell (lt_hard_to_maintain t) (lt_hard_to_maintain t - lt_hard_to_maintain q) /\
      ltd_unmaintainable t p =
        cell (lt_unmaintainable t) (lt_unmaintainable t - lt_unmaintainable q)
  | None =>
      ltd_files t p = cell (lt_files t) (lt_files t - 0) /\
      ltd_functions t p = cell (lt_functions t) (lt_functions t - 0) /\
      ltd_loc t p = cell (lt_loc t) (lt_loc t - 0) /\
      ltd_hard_to_maintain t p = fmt_n (lt_hard_to_maintain t) /\
      ltd_unmaintainable t p = fmt_n (lt_unmaintainable t)
  end.
Proof.
  intros t [q|].
  - split; [|split; [|split; [|split]]].
    + apply ltd_files_some.
    + apply ltd_functions_some.
    + apply ltd_loc_some.
    + apply ltd_hard_to_maintain_some.
    + apply ltd_unmaintainable_some.
  - rewrite !Z.sub_0_r. split; [|split; [|split; [|split]]].
    + apply ltd_files_none.
    + apply ltd_functions_none.
    + apply ltd_loc_none.
    + apply ltd_hard_to_maintain_none.
    + apply ltd_unmaintainable_none.
Qed.

(* ---------- B2: ScanTotalsDelta ---------- *)
Theorem std_cells : forall c p,
  std_total_files c p = cell c (c - p) /\
  std_total_functions c p = cell c (c - p) /\
  std_total_loc c p = cell c (c - p) /\
  std_total_hard_to_maintain c p = cell c (c - p) /\
  std_total_unmaintainable c p = cell c (c - p).
Proof.
  intros c p.
  unfold std_total_files, std_total_functions, std_total_loc,
         std_total_hard_to_maintain, std_total_unmaintainable, cell.
  cbv zeta. repeat split; reflexivity.
Qed.

(* ---------- B3: what a cell says ---------- *)
Lemma cell_zero c : cell c 0 = fmt_n c.
Proof. reflexivity. Qed.

Lemma cell_nonzero c d :
  d <> 0 -> cell c d = fmt_n c ++ [32; 40] ++ fmt_plus_n d ++ [41].
Proof. intros Hd. unfold cell. destruct (Z.eqb_spec d 0); [contradiction|reflexivity]. Qed.

(* the leading integer of every cell is the stored figure *)
Theorem cell_number : forall c d, leading_int (cell c d) = Some c.
Proof.
  intros c d. unfold cell. destruct (d =? 0).
  - apply leading_int_fmt_n_nil.
  - apply leading_int_fmt_n_space.
Qed.

(* a cell carries an annotation "(...)" exactly when the delta is not 0 *)
Theorem cell_annotation : forall c d,
  (exists a, cell c d = fmt_n c ++ [32; 40] ++ a ++ [41]) <-> d <> 0.
Proof.
  intros c d. split.
  - intros [a E] ->. rewrite cell_zero in E.
    apply (f_equal (@length Z)) in E. rewrite !app_length in E. cbn [length] in E. lia.
  - intros Hd. exists (fmt_plus_n d). apply cell_nonzero, Hd.
Qed.

(* ... and the annotation is the signed delta *)
Theorem cell_annotation_value : forall c d a,
  cell c d = fmt_n c ++ [32; 40] ++ a ++ [41] -> d <> 0 /\ signed_int a = Some d.
Proof.
  intros c d a E.
  assert (Hd : d <> 0) by (apply (cell_annotation c d); exists a; exact E).
  split; [exact Hd|].
  rewrite (cell_nonzero c d Hd) in E.
  apply app_inv_head in E. apply (app_inv_head [32; 40]) in E. apply app_inv_tail in E.
  subst a. apply signed_int_fmt_plus_n.
Qed.

(* an unchanged figure is shown as the bare number: '-' and digits only *)
Theorem cell_plain : forall c d,
  d = 0 -> cell c d = fmt_n c /\
           Forall (fun ch => ch = 45 \/ 48 <= ch <= 57) (cell c d) /\ ~ In 40 (cell c d).
Proof.
  intros c d ->. rewrite cell_zero. split; [reflexivity|]. split; [apply fmt_n_chars|].
  intros Hin. pose proof (fmt_n_chars c) as H. rewrite Forall_forall in H.
  destruct (H 40 Hin); lia.
Qed.

(* current minus previous: annotated exactly when the two figures differ *)
Corollary cell_diff_annotated : forall c p,
  ((exists a, cell c (c - p) = fmt_n c ++ [32; 40] ++ a ++ [41]) <-> c <> p) /\
  (forall a, cell c (c - p) = fmt_n c ++ [32; 40] ++ a ++ [41] ->
             signed_int a = Some (c - p)) /\
  (c = p -> cell c (c - p) = fmt_n c).
Proof.
  intros c p. split; [rewrite cell_annotation; lia|]. split.
  - intros a E. apply (cell_annotation_value c (c - p) a E).
  - intros ->. rewrite Z.sub_diag. reflexivity.
Qed.

(* sanity: "12", "12 (-3)", "1234 (+1234)", "-5 (+2)" *)
Example cell_ex1 : cell 12 0 = [49; 50].
Proof. vm_compute. reflexivity. Qed.
Example cell_ex2 : cell 12 (-3) = [49; 50; 32; 40; 45; 51; 41].
Proof. vm_compute. reflexivity. Qed.
Example cell_ex3 : cell 1234 1234 = [49; 50; 51; 52; 32; 40; 43; 49; 50; 51; 52; 41].
Proof. vm_compute. reflexivity. Qed.
Example cell_ex4 : cell (-5) 2 = [45; 53; 32; 40; 43; 50; 41].
Proof. vm_compute. reflexivity. Qed.

(* ================= C. the overview ================= *)
Lemma languages_totals_eq cur : languages_totals cur = sort_desc lt_loc cur.
Proof. unfold languages_totals. unfold_attrs. reflexivity. Qed.

Lemma sumZ_acc l : forall a, fold_left Z.add l a = a + sumZ l.
Proof.
  unfold sumZ. induction l as [|x l IH]; intros a; cbn [fold_left]; [lia|].
  rewrite IH, (IH (0 + x)). lia.
Qed.
Lemma sumZ_nil : sumZ [] = 0.
Proof. reflexivity. Qed.
Lemma sumZ_cons x l : sumZ (x :: l) = x + sumZ l.
Proof. unfold sumZ at 1. cbn [fold_left]. rewrite sumZ_acc. lia. Qed.

Lemma st_totals_eq vs :
  st_total_files vs = sumZ (map lt_files vs) /\
  st_total_functions vs = sumZ (map lt_functions vs) /\
  st_total_loc vs = sumZ (map lt_loc vs) /\
  st_total_hard_to_maintain vs = sumZ (map lt_hard_to_maintain vs) /\
  st_total_unmaintainable vs = sumZ (map lt_unmaintainable vs).
Proof.
  unfold st_total_files, st_total_functions, st_total_loc,
         st_total_hard_to_maintain, st_total_unmaintainable.
  unfold_attrs. repeat split; reflexivity.
Qed.

(* ---------- C1: text and Markdown show the same overview ---------- *)
Theorem C18_formats_agree : forall cur prev, overview_text cur prev = overview_md cur prev.
Proof.
  intros cur prev. unfold overview_text, overview_md.
  rewrite languages_totals_eq, sort_desc_length. reflexivity.
Qed.

(* ---------- C2: one row per language, by lines of code descending ---------- *)
Definition row_language (r : list pystr) : pystr := hd [] r.

Theorem C18_order : forall cur prev,
  let shown := sort_desc lt_loc cur in
  map row_language (ov_rows (overview_text cur prev)) = map lt_language shown /\
  length (ov_rows (overview_text cur prev)) = length cur /\
  Permutation shown cur /\
  Permutation (map lt_language shown) (map lt_language cur) /\
  StronglySorted (fun a b => lt_loc a >= lt_loc b) shown /\
  (forall k, filter (fun a => lt_loc a =? k) shown = filter (fun a => lt_loc a =? k) cur).
Proof.
  intros cur prev shown. subst shown.
  split; [|split; [|split; [|split; [|split]]]].
  - unfold overview_text. cbn [ov_rows]. rewrite languages_totals_eq, map_map.
    apply map_ext. intros t. destruct prev as [pv|]; reflexivity.
  - unfold overview_text. cbn [ov_rows].
    rewrite languages_totals_eq, map_length. apply sort_desc_length.
  - apply sort_desc_perm.
  - apply Permutation_map, sort_desc_perm.
  - exact (sort_desc_sorted lt_loc cur).
  - intros k. apply sort_desc_stable.
Qed.

(* ---------- C3: the row of a language ---------- *)
Lemma pystr_eqb_eq a : forall b, pystr_eqb a b = true <-> a = b.
Proof.
  induction a as [|x a IH]; intros [|y b]; cbn [pystr_eqb]; try (split; congruence).
  rewrite andb_true_iff, Z.eqb_eq, IH. split; [intros [-> ->]; reflexivity|].
  intros E; inversion E; split; reflexivity.
Qed.

(* dict.get: the entry of that language (the first one, were there several) *)
Theorem language_total_spec : forall pv lang,
  match language_total pv lang with
  | Some q => lt_language q = lang /\
              exists l1 l2, pv = l1 ++ q :: l2 /\
                            Forall (fun t => lt_language t <> lang) l1
  | None => Forall (fun t => lt_language t <> lang) pv
  end.
Proof.
  intros pv lang. unfold language_total.
  induction pv as [|t pv IH]; cbn [find]; [constructor|].
  destruct (pystr_eqb (lt_language t) lang) eqn:E.
  - apply pystr_eqb_eq in E. split; [exact E|]. exists [], pv. split; [reflexivity|constructor].
  - assert (Hne : lt_language t <> lang).
    { intros H. apply pystr_eqb_eq in H. congruence. }
    destruct (find _ pv) as [q|].
    + destruct IH as (Hq & l1 & l2 & -> & Hl1). split; [exact Hq|].
      exists (t :: l1), l2. split; [reflexivity|]. constructor; assumption.
    + constructor; assumption.
Qed.

(* what the row of language [t] must be *)
Definition row_spec (prev : option (list LanguageTotals)) (t : LanguageTotals)
                    (r : list pystr) : Prop :=
  match prev with
  | None =>                       (* no comparison: the bare stored figures *)
      r = [lt_language t; fmt_n (lt_files t); fmt_n (lt_functions t); fmt_n (lt_loc t);
           fmt_n (lt_hard_to_maintain t); fmt_n (lt_unmaintainable t)]
  | Some pv =>
      match language_total pv (lt_language t) with
      | Some q =>                 (* language present in both reports *)
          r = [lt_language t;
               cell (lt_files t) (lt_files t - lt_files q);
               cell (lt_functions t) (lt_functions t - lt_functions q);
               cell (lt_loc t) (lt_loc t - lt_loc q);
               cell (lt_hard_to_maintain t) (lt_hard_to_maintain t - lt_hard_to_maintain q);
               cell (lt_unmaintainable t) (lt_unmaintainable t - lt_unmaintainable q)]
      | None =>                   (* new language: previous figures count as 0 *)
          r = [lt_language t;
               cell (lt_files t) (lt_files t);
               cell (lt_functions t) (lt_functions t);
               cell (lt_loc t) (lt_loc t);
               fmt_n (lt_hard_to_maintain t);
               fmt_n (lt_unmaintainable t)]
      end
  end.

Lemma row_spec_holds prev t :
  row_spec prev t (match prev with
                   | Some pv => delta_row t (language_total pv (lt_language t))
                   | None => plain_row t
                   end).
Proof.
  unfold row_spec. destruct prev as [pv|]; [|reflexivity].
  unfold delta_row. destruct (language_total pv (lt_language t)) as [q|].
  - rewrite ltd_files_some, ltd_functions_some, ltd_loc_some,
            ltd_hard_to_maintain_some, ltd_unmaintainable_some. reflexivity.
  - rewrite ltd_files_none, ltd_functions_none, ltd_loc_none,
            ltd_hard_to_maintain_none, ltd_unmaintainable_none. reflexivity.
Qed.

(* the rows are, in order, the specified rows of the languages sorted by loc *)
Theorem C18_rows_all : forall cur prev,
  Forall2 (row_spec prev) (sort_desc lt_loc cur) (ov_rows (overview_text cur prev)).
Proof.
  intros cur prev. unfold overview_text. cbn [ov_rows].
  change (languages_totals cur) with (sort_desc lt_loc cur).
  induction (sort_desc lt_loc cur) as [|t l IH]; cbn [map]; constructor.
  - apply row_spec_holds.
  - exact IH.
Qed.

Theorem C18_rows : forall cur prev t,
  In t (languages_totals cur) ->
  exists r, In r (ov_rows (overview_text cur prev)) /\
    match prev with
    | None => r = plain_row t
    | Some pv =>
        forall q, language_total pv (lt_language t) = Some q ->
          r = [lt_language t;
               cell (lt_files t) (lt_files t - lt_files q);
               cell (lt_functions t) (lt_functions t - lt_functions q);
               cell (lt_loc t) (lt_loc t - lt_loc q);
               cell (lt_hard_to_maintain t) (lt_hard_to_maintain t - lt_hard_to_maintain q);
               cell (lt_unmaintainable t) (lt_unmaintainable t - lt_unmaintainable q)]
    end.
Proof.
  intros cur prev t Hin.
  exists (match prev with
          | Some pv => delta_row t (language_total pv (lt_language t))
          | None => plain_row t
          end).
  split.
  - unfold overview_text. cbn [ov_rows].
    apply (in_map (fun t => match prev with
                            | Some pv => delta_row t (language_total pv (lt_language t))
                            | None => plain_row t
                            end)), Hin.
  - pose proof (row_spec_holds prev t) as H. unfold row_spec in H.
    destruct prev as [pv|]; [|reflexivity].
    intros q Hq. rewrite Hq in H |- *. exact H.
Qed.

(* every language of the current report has its row (and conversely) *)
Corollary C18_rows_cover : forall cur t,
  In t cur <-> In t (languages_totals cur).
Proof. intros cur t. rewrite languages_totals_eq. symmetry. apply sort_desc_In. Qed.

(* ---------- C4: the totals line ---------- *)
Theorem C18_totals : forall cur prev,
  (ov_totals (overview_text cur prev) = None <-> (length cur <= 1)%nat) /\
  ((1 < length cur)%nat ->
   ov_totals (overview_text cur prev) = Some
     match prev with
     | None =>
         [fmt_n (sumZ (map lt_files cur));
          fmt_n (sumZ (map lt_functions cur));
          fmt_n (sumZ (map lt_loc cur));
          fmt_n (sumZ (map lt_hard_to_maintain cur));
          fmt_n (sumZ (map lt_unmaintainable cur))]
     | Some pv =>
         [cell (sumZ (map lt_files cur))
               (sumZ (map lt_files cur) - sumZ (map lt_files pv));
          cell (sumZ (map lt_functions cur))
               (sumZ (map lt_functions cur) - sumZ (map lt_functions pv));
          cell (sumZ (map lt_loc cur))
               (sumZ (map lt_loc cur) - sumZ (map lt_loc pv));
          cell (sumZ (map lt_hard_to_maintain cur))
               (sumZ (map lt_hard_to_maintain cur) - sumZ (map lt_hard_to_maintain pv));
          cell (sumZ (map lt_unmaintainable cur))
               (sumZ (map lt_unmaintainable cur) - sumZ (map lt_unmaintainable pv))]
     end).
Proof.
  intros cur prev. unfold overview_text. cbn [ov_totals].
  destruct (Z.ltb_spec 1 (Z.of_nat (length cur))) as [Hlt|Hge].
  - split; [split; [discriminate|lia]|]. intros _. apply f_equal.
    destruct prev as [pv|].
    + unfold delta_totals.
      destruct (st_totals_eq cur) as (-> & -> & -> & -> & ->).
      destruct (st_totals_eq pv) as (-> & -> & -> & -> & ->).
      destruct (std_cells (sumZ (map lt_files cur)) (sumZ (map lt_files pv)))
        as (-> & _).
      destruct (std_cells (sumZ (map lt_functions cur)) (sumZ (map lt_functions pv)))
        as (_ & -> & _).
      destruct (std_cells (sumZ (map lt_loc cur)) (sumZ (map lt_loc pv)))
        as (_ & _ & -> & _).
      destruct (std_cells (sumZ (map lt_hard_to_maintain cur))
                          (sumZ (map lt_hard_to_maintain pv))) as (_ & _ & _ & -> & _).
      destruct (std_cells (sumZ (map lt_unmaintainable cur))
                          (sumZ (map lt_unmaintainable pv))) as (_ & _ & _ & _ & ->).
      reflexivity.
    + unfold plain_totals.
      destruct (st_totals_eq cur) as (-> & -> & -> & -> & ->). reflexivity.
  - split; [split; [lia|reflexivity]|]. intros H. lia.
Qed.

(* the sums are the plain column sums *)
Corollary sumZ_column : forall (f : LanguageTotals -> Z) t l,
  sumZ (map f (t :: l)) = f t + sumZ (map f l).
Proof. intros. cbn [map]. apply sumZ_cons. Qed.
