(* PyGrammarProofsLex.v — the programs of the canonical Python grammar (Scope/PyGrammar.v) are lexically
   canonical: the leftmost non-overlapping selection of the shape `[async] def name (...)+` finds exactly the
   heads of the definition lines.  The candidate function cand_def applies at the first token of a
   definition line (at `async` when present; the `def` inside `async def` overlaps and is skipped) and
   nowhere else: other positions carry no `def` keyword, and an `async` keyword is followed, on its own
   line, by a token that is not `def` (a line does not end with `async`).  The pattern is indifferent to line
   breaks, so a header over several physical lines is found like a one-line header; in its parameter groups
   only parentheses count (pgroups), exactly as for the run function groups_len. *)
From Verif Require Import Base Regex Token TokEngine Headers Blocks Spec HeaderSpec LexShapes PySpec Grammar GrammarAll PyGrammar.
From Verif Require Import GrammarProofsParen GrammarProofsBrace GrammarProofsHeaders GrammarAllProofsTok GrammarAllProofsWf
  GrammarAllProofsSel GrammarAllProofsCand PyGrammarProofsWf.
Open Scope nat_scope.

(* ---------- cand_def / follow_any under a prefix ---------- *)
Lemma step_def : step_shift cand_def.
Proof.
  intros t ts i. unfold cand_def. shift_blocks t ts.
  destruct (kw_at ts i s_async); shift_blocks t ts;
    (match goal with |- context [if ?b then _ else None] => destruct b end; [|reflexivity]);
    (match goal with |- context [groups_end ts ?k] => destruct (groups_end ts k) end; reflexivity).
Qed.
Lemma cshift_def : cshift cand_def.
Proof. apply step_cshift, step_def. Qed.
Lemma fshift_any : fshift follow_any.
Proof. intros P l j. reflexivity. Qed.

(* ---------- keywords at a position ---------- *)
Lemma kw_at_nth ts k t s : nth_error ts k = Some t -> kw_at ts k s = kw_is t s.
Proof. intros H. unfold kw_at, kw_is. rewrite H. reflexivity. Qed.
Lemma kw_at_none ts k s : nth_error ts k = None -> kw_at ts k s = false.
Proof. intros H. unfold kw_at. rewrite H. reflexivity. Qed.

Lemma kw_def_not_async t : kw_is t s_def = true -> kw_is t s_async = false.
Proof.
  intros H. apply kw_is_value in H. apply pstr_eqb_eq in H. unfold kw_is. rewrite H.
  apply andb_false_r.
Qed.

Lemma last_nth {A} (l : list A) d : l <> [] -> nth_error l (length l - 1) = Some (last l d).
Proof.
  induction l as [|a l IH]; [congruence|]. intros _. destruct l as [|b l]; [reflexivity|].
  cbn [length]. replace (S (S (length l)) - 1) with (S (length (b :: l) - 1)) by (cbn [length]; lia).
  cbn [nth_error]. rewrite IH by discriminate. reflexivity.
Qed.

(* ---------- segments without candidate: no `def`, and no `async` at the end ---------- *)
Lemma no_def_no_acc A B : no_def A -> kw_is (last A dtok) s_async = false -> no_acc cand_def follow_any A B.
Proof.
  intros Hnd Hlast k Hk. apply acc_cand_none. unfold cand_def.
  destruct (nth_error A k) as [t|] eqn:Et; [|apply nth_error_None in Et; lia].
  assert (Ek : nth_error (A ++ B) k = Some t) by (rewrite nth_error_app1 by exact Hk; exact Et).
  assert (Hd : kw_is t s_def = false).
  { unfold no_def in Hnd. rewrite Forall_forall in Hnd. apply Hnd. eapply nth_error_In; exact Et. }
  rewrite (kw_at_nth _ _ _ _ Ek). destruct (kw_is t s_async) eqn:Ea.
  - (* the next token is on the same line and is not `def` *)
    assert (Hne : A <> []) by (destruct A; [cbn [length] in Hk; lia | discriminate]).
    assert (Hk' : S k < length A).
    { destruct (Nat.eq_dec k (length A - 1)) as [->|Hn]; [|lia].
      rewrite (last_nth A dtok Hne) in Et. injection Et as <-. congruence. }
    destruct (nth_error A (S k)) as [u|] eqn:Eu; [|apply nth_error_None in Eu; lia].
    assert (Eu' : nth_error (A ++ B) (S k) = Some u) by (rewrite nth_error_app1 by exact Hk'; exact Eu).
    rewrite (kw_at_nth _ _ _ _ Eu').
    assert (Hu : kw_is u s_def = false).
    { unfold no_def in Hnd. rewrite Forall_forall in Hnd. apply Hnd. eapply nth_error_In; exact Eu. }
    rewrite Hu. reflexivity.
  - rewrite (kw_at_nth _ _ _ _ Ek), Hd. reflexivity.
Qed.

(* ---------- Python parenthesis groups (only parentheses count) and the run function groups_len ---------- *)
Lemma pplain_inv t : pplain t = true -> is_lparen t = false /\ is_rparen t = false.
Proof.
  unfold pplain. intros H. apply andb_prop in H as [H1 H2].
  apply negb_true_iff in H1. apply negb_true_iff in H2. auto.
Qed.

(* inside a group (depth >= 1) a pinner sequence is consumed entirely and leaves the depth unchanged *)
Lemma groups_len_pinner g : pinner g -> forall (d : Z) rest, (0 < d)%Z ->
  groups_len (g ++ rest) d = length g + groups_len rest d.
Proof.
  induction 1 as [|t r Ht Hr IH|o g c r Ho Hg IHg Hc Hr IHr]; intros d rest Hd.
  - reflexivity.
  - apply pplain_inv in Ht as (H1 & H2). cbn [app].
    rewrite groups_len_inside_plain by assumption. rewrite IH by assumption. reflexivity.
  - replace ((o :: g ++ c :: r) ++ rest) with (o :: g ++ c :: (r ++ rest)) by (norm_app; reflexivity).
    rewrite groups_len_inside_lparen by assumption.
    rewrite IHg by lia. rewrite groups_len_inside_rparen by (assumption || lia).
    replace (d + 1 - 1)%Z with d by lia. rewrite IHr by assumption.
    norm_len. lia.
Qed.

(* a run of groups followed by a token that is not "(" is consumed exactly *)
Lemma groups_len_pgroups gs : pgroups gs -> forall t rest, is_lparen t = false ->
  groups_len (gs ++ t :: rest) 0 = length gs.
Proof.
  induction 1 as [g Hg|g r Hg Hr IH]; intros t rest Ht.
  - destruct Hg as [o g' c Ho Hg' Hc].
    replace ((o :: g' ++ [c]) ++ t :: rest) with (o :: g' ++ c :: t :: rest) by (norm_app; reflexivity).
    rewrite groups_len_outside_lparen by exact Ho.
    rewrite (groups_len_pinner g' Hg' 1%Z) by lia.
    rewrite groups_len_inside_rparen by (assumption || lia).
    replace (1 - 1)%Z with 0%Z by lia. rewrite groups_len_outside_stop by exact Ht.
    norm_len. lia.
  - destruct Hg as [o g' c Ho Hg' Hc].
    replace (((o :: g' ++ [c]) ++ r) ++ t :: rest) with (o :: g' ++ c :: (r ++ t :: rest)) by (norm_app; reflexivity).
    rewrite groups_len_outside_lparen by exact Ho.
    rewrite (groups_len_pinner g' Hg' 1%Z) by lia.
    rewrite groups_len_inside_rparen by (assumption || lia).
    replace (1 - 1)%Z with 0%Z by lia. rewrite IH by exact Ht.
    norm_len. lia.
Qed.

Lemma pgroups_head gs : pgroups gs -> exists o r, gs = o :: r /\ is_lparen o = true.
Proof.
  induction 1 as [g Hg|g r Hg Hr IH]; destruct Hg as [o g' c Ho Hg' Hc].
  - exists o, (g' ++ [c]). split; [reflexivity | exact Ho].
  - exists o, ((g' ++ [c]) ++ r). split; [reflexivity | exact Ho].
Qed.

Lemma ge0_pgroups gs t R : pgroups gs -> is_lparen t = false -> ge0 (gs ++ t :: R) = Some (length gs).
Proof.
  intros Hgs Ht. pose proof (groups_len_pgroups gs Hgs t R Ht) as Hrun.
  destruct (pgroups_head gs Hgs) as (p & r & -> & Hp). unfold ge0. cbn [app] in *. rewrite Hp, Hrun. reflexivity.
Qed.

(* ---------- the head of a definition line is accepted ---------- *)
Lemma groups_end_2 a b W : groups_end (a :: b :: W) 2 = match ge0 W with Some e => Some (S (S e)) | None => None end.
Proof. rewrite !groups_end_cons, groups_end_0. destruct (ge0 W); reflexivity. Qed.

Lemma acc_def_head d nm gs r0 X :
  kw_is d s_def = true -> is_name nm = true -> pgroups gs -> is_lparen r0 = false ->
  acc cand_def follow_any ((d :: nm :: gs) ++ r0 :: X) 0 = Some (1, length (d :: nm :: gs)).
Proof.
  intros Hd Hn Hg Hr. unfold acc, cand_def. cbn [app].
  change (kw_at (d :: nm :: gs ++ r0 :: X) 0 s_async) with (kw_is d s_async).
  rewrite (kw_def_not_async d Hd).
  change (kw_at (d :: nm :: gs ++ r0 :: X) 0 s_def) with (kw_is d s_def).
  change (name_at (d :: nm :: gs ++ r0 :: X) 1) with (is_name nm).
  rewrite Hd, Hn. cbn [andb]. rewrite groups_end_2, (ge0_pgroups gs r0 X Hg Hr). reflexivity.
Qed.

Lemma acc_async_head a d nm gs r0 X :
  kw_is a s_async = true -> kw_is d s_def = true -> is_name nm = true -> pgroups gs -> is_lparen r0 = false ->
  acc cand_def follow_any ((a :: d :: nm :: gs) ++ r0 :: X) 0 = Some (2, length (a :: d :: nm :: gs)).
Proof.
  intros Ha Hd Hn Hg Hr. unfold acc, cand_def. cbn [app].
  change (kw_at (a :: d :: nm :: gs ++ r0 :: X) 0 s_async) with (kw_is a s_async).
  rewrite Ha.
  change (kw_at (a :: d :: nm :: gs ++ r0 :: X) 1 s_def) with (kw_is d s_def).
  change (name_at (a :: d :: nm :: gs ++ r0 :: X) 2) with (is_name nm).
  rewrite Hd, Hn. cbn [andb]. rewrite groups_end_cons, groups_end_2, (ge0_pgroups gs r0 X Hg Hr). reflexivity.
Qed.

Lemma last_app_ne {A} (l1 l2 : list A) d : l2 <> [] -> last (l1 ++ l2) d = last l2 d.
Proof.
  intros H. induction l1 as [|a l1 IH]; [reflexivity|]. cbn [app].
  destruct (l1 ++ l2) as [|x y] eqn:E.
  - apply app_eq_nil in E as [_ E]. congruence.
  - cbn [last] in *. exact IH.
Qed.

(* a definition header (possibly over several lines): one header, at its head *)
Lemma def_line_seg off hl l nmo heo B :
  def_line hl l nmo heo -> kw_is (last l dtok) s_async = false ->
  Seg cand_def follow_any off l B [mkHeader (off + nmo) off (off + heo)].
Proof.
  intros Hd Hlast.
  destruct Hd as [d nm gs rest Hkd Hn Hg _ Hr Hlp Hnd _ | a d nm gs rest Hka Hkd Hn Hg _ Hr Hlp Hnd _].
  - destruct rest as [|r0 rest]; [congruence|]. cbn [hd] in Hlp.
    change (d :: nm :: gs ++ r0 :: rest) with ((d :: nm :: gs) ++ r0 :: rest) in *.
    rewrite last_app_ne in Hlast by discriminate.
    change [mkHeader (off + 1) off (off + (2 + length gs))]
      with ([mkHeader (off + 1) off (off + length (d :: nm :: gs))] ++ []).
    apply (Seg_app cand_def follow_any).
    + apply (Seg_head cand_def follow_any cshift_def fshift_any); [cbn [length]; lia|].
      rewrite <- app_comm_cons. apply acc_def_head; assumption.
    + apply (Seg_none cand_def follow_any cshift_def fshift_any). apply no_def_no_acc; assumption.
  - destruct rest as [|r0 rest]; [congruence|]. cbn [hd] in Hlp.
    change (a :: d :: nm :: gs ++ r0 :: rest) with ((a :: d :: nm :: gs) ++ r0 :: rest) in *.
    rewrite last_app_ne in Hlast by discriminate.
    change [mkHeader (off + 2) off (off + (3 + length gs))]
      with ([mkHeader (off + 2) off (off + length (a :: d :: nm :: gs))] ++ []).
    apply (Seg_app cand_def follow_any).
    + apply (Seg_head cand_def follow_any cshift_def fshift_any); [cbn [length]; lia|].
      rewrite <- app_comm_cons. apply acc_async_head; assumption.
    + apply (Seg_none cand_def follow_any cshift_def fshift_any). apply no_def_no_acc; assumption.
Qed.

Lemma plain_line_seg off l c ln B : line_at c ln l -> no_def l -> Seg cand_def follow_any off l B [].
Proof.
  intros (_ & _ & _ & _ & Hlast) Hnd.
  apply (Seg_none cand_def follow_any cshift_def fshift_any). apply no_def_no_acc; assumption.
Qed.

Definition seg_ctx (off : nat) (ts : list token) (ds : list pydesc) : Prop :=
  forall B, Seg cand_def follow_any off ts B (map py_header_of ds).

Theorem pentry_pblock_seg : forall c,
  (forall off lo ts ds hi, pentry c off lo ts ds hi -> seg_ctx off ts ds) /\
  (forall off lo ts ds hi, pblock c off lo ts ds hi -> seg_ctx off ts ds).
Proof.
  apply (pentry_pblock_ind (fun _ off _ ts ds _ => seg_ctx off ts ds) (fun _ off _ ts ds _ => seg_ctx off ts ds)).
  - intros c off lo l ln Hl _ Hnd B. cbn [map]. apply (plain_line_seg off l c ln); assumption.
  - intros c off lo l ln c' sub ds hi Hl _ Hnd _ _ IH B.
    change (map py_header_of ds) with ([] ++ map py_header_of ds).
    apply (Seg_app cand_def follow_any).
    + apply (plain_line_seg off l c ln); assumption.
    + apply IH.
  - intros c off lo l ln hl nmo heo c' sub ds hi Hl _ Hd _ _ IH B. cbn [map].
    change (py_header_of (mkPd (off + nmo) off (off + heo) (off + length l) (off + length l + length sub)) :: map py_header_of ds)
      with ([mkHeader (off + nmo) off (off + heo)] ++ map py_header_of ds).
    apply (Seg_app cand_def follow_any).
    + apply (def_line_seg off hl l nmo heo); [exact Hd|].
      destruct Hl as (_ & _ & _ & _ & _ & _ & Hlast). exact Hlast.
    + apply IH.
  - intros c off lo e ds hi _ IH. exact IH.
  - intros c off lo e ds1 mid r ds2 hi _ IHe _ IHr B. rewrite map_app.
    apply (Seg_app cand_def follow_any); [apply IHe | apply IHr].
Qed.

Theorem py_canonical_headers : forall ts ds, py_canonical_program ts ds ->
  lexical_headers_Python ts = map py_header_of ds.
Proof.
  intros ts ds (c & lo & hi & H). unfold lexical_headers_Python.
  apply (Seg_shape cand_def follow_any). exact (proj2 (pentry_pblock_seg c) _ _ _ _ _ H []).
Qed.
