(* PyGrammarProofsWf.v — the programs of the canonical Python grammar (Scope/PyGrammar.v) satisfy
   PySpec.py_wf_descs: no continuation tokens, the shape clause of every descriptor (header line,
   suite on later lines, every suite line indented deeper, suite maximal) and the ordering clause.
   No hypothesis about token positions is needed: the grammar fixes line numbers and the columns of
   the first tokens of lines, which is all py_wf_descs speaks about. *)
From Verif Require Import Base Regex Token TokEngine Lex Headers Blocks Pairing Fold ScanFile Spec HeaderSpec
  LexShapes PySpec PySpecProofsLines Grammar GrammarAll PyGrammar.
From Coq Require Import Sorted.
Open Scope nat_scope.

Definition dtok : token := mkTok KOther [] 0 0.

Scheme pentry_mind := Minimality for pentry Sort Prop
  with pblock_mind := Minimality for pblock Sort Prop.
Combined Scheme pentry_pblock_ind from pentry_mind, pblock_mind.

(* ---------- tokens in a context ---------- *)
Lemma nth_error_ctx {A} (pre ts post : list A) j :
  j < length ts -> nth_error (pre ++ ts ++ post) (length pre + j) = nth_error ts j.
Proof.
  intros H. rewrite nth_error_app2 by lia. replace (length pre + j - length pre) with j by lia.
  apply nth_error_app1. exact H.
Qed.

Lemma tok_line_app1 A B k : k < length A -> tok_line (A ++ B) k = tok_line A k.
Proof. intros H. unfold tok_line. rewrite nth_error_app1 by exact H. reflexivity. Qed.
Lemma tok_col_app1 A B k : k < length A -> tok_col (A ++ B) k = tok_col A k.
Proof. intros H. unfold tok_col. rewrite nth_error_app1 by exact H. reflexivity. Qed.
Lemma tok_line_app2 A B k : tok_line (A ++ B) (length A + k) = tok_line B k.
Proof. unfold tok_line. rewrite nth_error_app2 by lia. replace (length A + k - length A) with k by lia. reflexivity. Qed.
Lemma tok_col_app2 A B k : tok_col (A ++ B) (length A + k) = tok_col B k.
Proof. unfold tok_col. rewrite nth_error_app2 by lia. replace (length A + k - length A) with k by lia. reflexivity. Qed.
Lemma tok_line_ctx pre ts post j : j < length ts -> tok_line (pre ++ ts ++ post) (length pre + j) = tok_line ts j.
Proof. intros H. unfold tok_line. rewrite nth_error_ctx by exact H. reflexivity. Qed.
Lemma tok_col_ctx pre ts post j : j < length ts -> tok_col (pre ++ ts ++ post) (length pre + j) = tok_col ts j.
Proof. intros H. unfold tok_col. rewrite nth_error_ctx by exact H. reflexivity. Qed.

Lemma tok_line_Forall (P : Z -> Prop) A k : Forall (fun t => P (t_line t)) A -> k < length A -> P (tok_line A k).
Proof.
  intros HF Hk. unfold tok_line. destruct (nth_error A k) as [t|] eqn:E.
  - apply nth_error_In in E. rewrite Forall_forall in HF. apply HF. exact E.
  - apply nth_error_None in E. lia.
Qed.

Lemma tok_col_0 l : tok_col l 0 = t_col (hd dtok l).
Proof. destruct l; reflexivity. Qed.
Lemma tok_line_0 t l : tok_line (t :: l) 0 = t_line t.
Proof. reflexivity. Qed.

(* ---------- the first token of a physical line ---------- *)
Lemma lfi_le ts : forall k, line_first_index ts k <= k.
Proof.
  induction k as [|k IH]; cbn [line_first_index]; [lia|].
  destruct (tok_line ts k =? tok_line ts (S k))%Z; lia.
Qed.

Lemma lfi_app1 A B : forall k, k < length A -> line_first_index (A ++ B) k = line_first_index A k.
Proof.
  induction k as [|k IH]; intros Hk; cbn [line_first_index]; [reflexivity|].
  rewrite !tok_line_app1 by lia. rewrite IH by lia. reflexivity.
Qed.

Lemma lfi_app2 A B (b : Z) :
  Forall (fun t => (t_line t <= b)%Z) A -> Forall (fun t => (b < t_line t)%Z) B ->
  forall k, k < length B -> line_first_index (A ++ B) (length A + k) = length A + line_first_index B k.
Proof.
  intros HA HB. induction k as [|k IH]; intros Hk.
  - rewrite Nat.add_0_r. cbn [line_first_index]. destruct (length A) as [|n] eqn:En; [reflexivity|].
    cbn [line_first_index].
    assert (H1 : (tok_line (A ++ B) n <= b)%Z).
    { rewrite tok_line_app1 by lia. apply (tok_line_Forall (fun z => (z <= b)%Z)); [exact HA | lia]. }
    assert (H2 : (b < tok_line (A ++ B) (S n))%Z).
    { rewrite <- En. replace (length A) with (length A + 0) by lia. rewrite tok_line_app2.
      apply (tok_line_Forall (fun z => (b < z)%Z)); [exact HB | exact Hk]. }
    destruct (Z.eqb_spec (tok_line (A ++ B) n) (tok_line (A ++ B) (S n))) as [E|E]; [lia | cbn [line_first_index]; lia].
  - replace (length A + S k) with (S (length A + k)) by lia. cbn [line_first_index].
    rewrite tok_line_app2. replace (S (length A + k)) with (length A + S k) by lia. rewrite tok_line_app2.
    rewrite IH by lia. destruct (tok_line B k =? tok_line B (S k))%Z; lia.
Qed.

Lemma line_indent_app1 A B k : k < length A -> line_indent (A ++ B) k = line_indent A k.
Proof.
  intros Hk. unfold line_indent. rewrite lfi_app1 by exact Hk. apply tok_col_app1.
  pose proof (lfi_le A k). lia.
Qed.

Lemma line_indent_app2 A B (b : Z) k :
  Forall (fun t => (t_line t <= b)%Z) A -> Forall (fun t => (b < t_line t)%Z) B -> k < length B ->
  line_indent (A ++ B) (length A + k) = line_indent B k.
Proof.
  intros HA HB Hk. unfold line_indent. rewrite (lfi_app2 A B b HA HB k Hk). apply tok_col_app2.
Qed.

Lemma line_indent_ctx pre ts post (b : Z) k :
  Forall (fun t => (t_line t <= b)%Z) pre -> Forall (fun t => (b < t_line t)%Z) ts -> k < length ts ->
  line_indent (pre ++ ts ++ post) (length pre + k) = line_indent ts k.
Proof.
  intros HA HB Hk. rewrite app_assoc. rewrite line_indent_app1 by (rewrite app_length; lia).
  apply (line_indent_app2 pre ts b k HA HB Hk).
Qed.

(* one line *)
Lemma lfi_one_line l (ln : Z) : Forall (fun t => t_line t = ln) l ->
  forall k, k < length l -> line_first_index l k = 0.
Proof.
  intros HF. induction k as [|k IH]; intros Hk; cbn [line_first_index]; [reflexivity|].
  assert (H1 : tok_line l k = ln) by (apply (tok_line_Forall (fun z => z = ln)); [exact HF | lia]).
  assert (H2 : tok_line l (S k) = ln) by (apply (tok_line_Forall (fun z => z = ln)); [exact HF | lia]).
  rewrite H1, H2, Z.eqb_refl. apply IH. lia.
Qed.

(* ---------- definition headers ---------- *)
Lemma def_line_bounds hl l nmo heo : def_line hl l nmo heo -> nmo < heo /\ heo < length l.
Proof.
  intros H. destruct H as [d nm gs rest _ _ _ _ Hr _ _ _ | a d nm gs rest _ _ _ _ _ Hr _ _ _];
    (destruct rest as [|r0 rest]; [congruence|]); cbn [length]; rewrite app_length; cbn [length]; lia.
Qed.

(* the tokens from the end of the recognised shape to the end of the header stand on the header's last line *)
Lemma def_line_rest hl l nmo heo : def_line hl l nmo heo ->
  forall j, heo <= j < length l -> tok_line l j = hl.
Proof.
  intros H. destruct H as [d nm gs rest _ _ _ _ _ _ _ HF | a d nm gs rest _ _ _ _ _ _ _ _ HF]; intros j Hj.
  - change (d :: nm :: gs ++ rest) with ((d :: nm :: gs) ++ rest) in *.
    rewrite app_length in Hj. cbn [length] in Hj.
    replace j with (length (d :: nm :: gs) + (j - length (d :: nm :: gs))) by (cbn [length]; lia).
    rewrite tok_line_app2. apply (tok_line_Forall (fun z => z = hl)); [exact HF | cbn [length]; lia].
  - change (a :: d :: nm :: gs ++ rest) with ((a :: d :: nm :: gs) ++ rest) in *.
    rewrite app_length in Hj. cbn [length] in Hj.
    replace j with (length (a :: d :: nm :: gs) + (j - length (a :: d :: nm :: gs))) by (cbn [length]; lia).
    rewrite tok_line_app2. apply (tok_line_Forall (fun z => z = hl)); [exact HF | cbn [length]; lia].
Qed.

(* line numbers that never decrease between adjacent tokens *)
Definition adj_mono (l : list token) : Prop :=
  forall i a b, nth_error l i = Some a -> nth_error l (S i) = Some b -> (t_line a <= t_line b)%Z.

Lemma adj_mono_tl a l : adj_mono (a :: l) -> adj_mono l.
Proof. intros H i x y Hx Hy. exact (H (S i) x y Hx Hy). Qed.

Lemma adj_first : forall l a, adj_mono (a :: l) -> Forall (fun t => (t_line a <= t_line t)%Z) (a :: l).
Proof.
  induction l as [|b l IH]; intros a H.
  - constructor; [lia | constructor].
  - constructor; [lia|]. pose proof (H 0 a b eq_refl eq_refl) as Hab.
    eapply Forall_impl; [|exact (IH b (adj_mono_tl a _ H))]. cbn beta. intros t Ht. lia.
Qed.

Lemma adj_last : forall l a, adj_mono (a :: l) -> Forall (fun t => (t_line t <= t_line (last (a :: l) dtok))%Z) (a :: l).
Proof.
  induction l as [|b l IH]; intros a H.
  - constructor; [cbn [last]; lia | constructor].
  - pose proof (H 0 a b eq_refl eq_refl) as Hab. pose proof (IH b (adj_mono_tl a _ H)) as HF.
    change (last (a :: b :: l) dtok) with (last (b :: l) dtok).
    constructor; [|exact HF]. apply Forall_inv in HF. lia.
Qed.

Lemma head_at_lines c ln hl l : head_at c ln hl l -> Forall (fun t => (ln <= t_line t <= hl)%Z) l.
Proof.
  intros (Hne & Hln & _ & Hhl & Hadj & _). destruct l as [|a l]; [congruence|].
  assert (Hm : adj_mono (a :: l)) by (intros i x y Hx Hy; apply (Hadj i x y Hx Hy)).
  pose proof (adj_first l a Hm) as H1. pose proof (adj_last l a Hm) as H2.
  cbn [hd] in Hln. unfold dtok in H2. rewrite Hhl in H2. rewrite Hln in H1.
  rewrite Forall_forall in *. intros t Ht. specialize (H1 t Ht). specialize (H2 t Ht). lia.
Qed.

Lemma head_at_len c ln hl l : head_at c ln hl l -> 0 < length l.
Proof. intros (Hne & _). destruct l; [congruence | cbn [length]; lia]. Qed.

(* every physical line of a header starts in a column >= c (the further ones: > c) *)
Lemma head_at_indent c ln hl l : head_at c ln hl l -> forall k, k < length l -> (c <= line_indent l k)%Z.
Proof.
  intros (Hne & _ & Hc & _ & Hadj & _). unfold line_indent.
  induction k as [|k IH]; intros Hk; cbn [line_first_index].
  - rewrite tok_col_0. unfold dtok. rewrite Hc. lia.
  - destruct (Z.eqb_spec (tok_line l k) (tok_line l (S k))) as [E|E]; [apply IH; lia|].
    destruct (nth_error l k) as [a|] eqn:Ea; [|apply nth_error_None in Ea; lia].
    destruct (nth_error l (S k)) as [b|] eqn:Eb; [|apply nth_error_None in Eb; lia].
    destruct (Hadj k a b Ea Eb) as [H1 H2]. unfold tok_line in E. rewrite Ea, Eb in E.
    unfold tok_col. rewrite Eb. lia.
Qed.

(* ---------- a segment of lines: numbers in (lo, hi], first token in column c, every line indented >= c ---------- *)
Definition seg_ok (c lo : Z) (ts : list token) (hi : Z) : Prop :=
  ts <> [] /\ Forall (fun t => (lo < t_line t <= hi)%Z) ts /\ t_col (hd dtok ts) = c /\
  no_continuation ts /\ (forall k, k < length ts -> (c <= line_indent ts k)%Z).

Lemma seg_line c ln l (lo : Z) : line_at c ln l -> (lo < ln)%Z -> seg_ok c lo l ln.
Proof.
  intros (Hne & Hln & Hc & Hnc & _) Hlo. split; [exact Hne|]. split; [|split; [exact Hc|split; [exact Hnc|]]].
  - eapply Forall_impl; [|exact Hln]. cbn beta. intros t Ht. lia.
  - intros k Hk. unfold line_indent. rewrite (lfi_one_line l ln Hln k Hk). rewrite tok_col_0. unfold dtok. rewrite Hc. lia.
Qed.

Lemma seg_head c ln hl l (lo : Z) : head_at c ln hl l -> (lo < ln)%Z -> seg_ok c lo l hl.
Proof.
  intros H Hlo. pose proof (head_at_lines _ _ _ _ H) as HL. pose proof (head_at_indent _ _ _ _ H) as HI.
  destruct H as (Hne & _ & Hc & _ & _ & Hnc & _).
  split; [exact Hne|]. split; [|split; [exact Hc|split; [exact Hnc|exact HI]]].
  eapply Forall_impl; [|exact HL]. cbn beta. intros t Ht. lia.
Qed.

Lemma seg_lt c lo ts hi : seg_ok c lo ts hi -> (lo < hi)%Z.
Proof.
  intros (Hne & HF & _). destruct ts as [|t ts]; [congruence|]. apply Forall_inv in HF. lia.
Qed.

Lemma seg_app c c' lo mid hi A B :
  seg_ok c lo A mid -> seg_ok c' mid B hi -> (c <= c')%Z -> seg_ok c lo (A ++ B) hi.
Proof.
  intros HA HB Hcc. pose proof (seg_lt _ _ _ _ HA) as L1. pose proof (seg_lt _ _ _ _ HB) as L2.
  destruct HA as (A1 & A2 & A3 & A4 & A5). destruct HB as (B1 & B2 & B3 & B4 & B5).
  split; [|split; [|split; [|split]]].
  - destruct A; [congruence | discriminate].
  - apply Forall_app. split; [eapply Forall_impl; [|exact A2] | eapply Forall_impl; [|exact B2]]; cbn beta; intros t Ht; lia.
  - destruct A; [congruence | exact A3].
  - apply Forall_app. split; assumption.
  - intros k Hk. rewrite app_length in Hk. destruct (lt_dec k (length A)) as [Hlt|Hge].
    + rewrite line_indent_app1 by exact Hlt. apply A5. exact Hlt.
    + replace k with (length A + (k - length A)) by lia.
      rewrite (line_indent_app2 A B mid);
        [| eapply Forall_impl; [|exact A2]; cbn beta; intros t Ht; lia
         | eapply Forall_impl; [|exact B2]; cbn beta; intros t Ht; lia | lia].
      assert (Hb := B5 (k - length A)). lia.
Qed.

(* ---------- the shape clause, in a context ---------- *)
(* what follows a segment of column c ending on line hi: nothing, or a line that starts later in a column <= c *)
Definition post_ok (c hi : Z) (post : list token) : Prop :=
  match post with [] => True | t :: _ => (hi < t_line t)%Z /\ (t_col t <= c)%Z end.

Definition shape_ctx (c : Z) (off : nat) (lo : Z) (ts : list token) (ds : list pydesc) (hi : Z) : Prop :=
  seg_ok c lo ts hi /\
  forall pre post, length pre = off -> Forall (fun t => (t_line t <= lo)%Z) pre -> post_ok c hi post ->
    Forall (py_shape (pre ++ ts ++ post)) ds.

Lemma post_ok_le c c' hi post : post_ok c hi post -> (c <= c')%Z -> post_ok c' hi post.
Proof. destruct post as [|t p]; [auto|]. cbn [post_ok]. lia. Qed.

Lemma post_ok_seg c lo r hi mid post : seg_ok c mid r hi -> (lo <= mid)%Z -> post_ok c lo (r ++ post).
Proof.
  intros (Hne & HF & Hc & _) Hle. destruct r as [|t r]; [congruence|]. cbn [app post_ok].
  apply Forall_inv in HF. cbn [hd] in Hc. lia.
Qed.

Lemma pre_app (lo b : Z) pre l :
  Forall (fun t => (t_line t <= lo)%Z) pre -> Forall (fun t => (t_line t <= b)%Z) l -> (lo <= b)%Z ->
  Forall (fun t => (t_line t <= b)%Z) (pre ++ l).
Proof.
  intros H1 H2 Hle. apply Forall_app. split; [|exact H2].
  eapply Forall_impl; [|exact H1]. cbn beta. intros t Ht. lia.
Qed.

(* the descriptor of a definition header followed by its suite *)
Lemma def_shape c c' lo ln hl hi l sub nmo heo pre post :
  head_at c ln hl l -> (lo < ln)%Z -> def_line hl l nmo heo -> (c < c')%Z -> seg_ok c' hl sub hi ->
  Forall (fun t => (t_line t <= lo)%Z) pre -> post_ok c hi post ->
  py_shape (pre ++ (l ++ sub) ++ post)
    (mkPd (length pre + nmo) (length pre) (length pre + heo) (length pre + length l)
          (length pre + length l + length sub)).
Proof.
  intros Hl Hlo Hd Hcc Hsub Hpre Hpost.
  pose proof (def_line_bounds _ _ _ _ Hd) as [Hb1 Hb2].
  pose proof (def_line_rest _ _ _ _ Hd) as Hrest.
  pose proof (head_at_lines _ _ _ _ Hl) as LL.
  destruct Hl as (Lne & _ & Lc & _ & _ & _ & _).
  destruct Hsub as (Sne & SF & Sc & Snc & Sind).
  assert (Hs0 : 0 < length sub) by (destruct sub; [congruence | cbn [length]; lia]).
  set (W := pre ++ (l ++ sub) ++ post).
  assert (W1 : W = pre ++ l ++ (sub ++ post)) by (unfold W; rewrite <- !app_assoc; reflexivity).
  assert (W2 : W = (pre ++ l) ++ sub ++ post) by (unfold W; rewrite <- !app_assoc; reflexivity).
  assert (W3 : W = ((pre ++ l) ++ sub) ++ post) by (unfold W; rewrite <- !app_assoc; reflexivity).
  assert (Hlen : length W = length pre + length l + length sub + length post)
    by (unfold W; rewrite !app_length; lia).
  assert (Hpl : length (pre ++ l) = length pre + length l) by apply app_length.
  assert (Lline : forall j, heo <= j < length l -> tok_line W (length pre + j) = hl).
  { intros j Hj. rewrite W1, tok_line_ctx by lia. apply Hrest. exact Hj. }
  assert (Sline : forall j, j < length sub -> (hl < tok_line W (length pre + length l + j) <= hi)%Z).
  { intros j Hj. rewrite W2, <- Hpl, tok_line_ctx by exact Hj.
    apply (tok_line_Forall (fun z => (hl < z <= hi)%Z)); [exact SF | exact Hj]. }
  assert (Hcol : tok_col W (length pre) = c).
  { replace (length pre) with (length pre + 0) by lia. rewrite W1, tok_col_ctx by lia.
    rewrite tok_col_0. exact Lc. }
  unfold py_shape. cbn [pd_name pd_start pd_hend pd_bstart pd_bend].
  split; [lia|]. split; [lia|]. split; [lia|]. split; [|split; [|split]].
  - intros k Hk. replace k with (length pre + (k - length pre)) by lia.
    rewrite !Lline by lia. lia.
  - rewrite Lline by lia. pose proof (Sline 0 Hs0) as H. rewrite Nat.add_0_r in H. lia.
  - intros k Hk. rewrite Hcol.
    replace k with (length (pre ++ l) + (k - length pre - length l)) by lia.
    rewrite W2. rewrite (line_indent_ctx (pre ++ l) sub post hl).
    + assert (Hi := Sind (k - length pre - length l)). lia.
    + apply (pre_app lo); [exact Hpre | | ].
      * eapply Forall_impl; [|exact LL]. cbn beta. intros t Ht. lia.
      * destruct l as [|a l']; [congruence|]. apply Forall_inv in LL. lia.
    + eapply Forall_impl; [|exact SF]. cbn beta. intros t Ht. lia.
    + lia.
  - intros Hlt. rewrite Hcol.
    assert (Hp : exists p post', post = p :: post') by (destruct post as [|p post']; [cbn [length] in Hlen; lia | eauto]).
    destruct Hp as (p & post' & ->). cbn [post_ok] in Hpost.
    assert (Hn : nth_error W (length pre + length l + length sub) = Some p).
    { rewrite W3. rewrite nth_error_app2 by (rewrite !app_length; lia).
      replace (length pre + length l + length sub - length ((pre ++ l) ++ sub)) with 0 by (rewrite !app_length; lia).
      reflexivity. }
    assert (HL : tok_line W (length pre + length l + length sub) = t_line p) by (unfold tok_line; rewrite Hn; reflexivity).
    assert (HC : tok_col W (length pre + length l + length sub) = t_col p) by (unfold tok_col; rewrite Hn; reflexivity).
    rewrite HL, HC.
    replace (length pre + length l + length sub - 1) with (length pre + length l + (length sub - 1)) by lia.
    pose proof (Sline (length sub - 1)) as H. lia.
Qed.

Theorem pentry_pblock_shape : forall c,
  (forall off lo ts ds hi, pentry c off lo ts ds hi -> shape_ctx c off lo ts ds hi) /\
  (forall off lo ts ds hi, pblock c off lo ts ds hi -> shape_ctx c off lo ts ds hi).
Proof.
  apply (pentry_pblock_ind shape_ctx shape_ctx).
  - (* pe_line *)
    intros c off lo l ln Hl Hlo _. split; [apply seg_line; assumption|]. intros; constructor.
  - (* pe_compound *)
    intros c off lo l ln c' sub ds hi Hl Hlo _ Hcc _ [IHs IHc].
    assert (Hseg : seg_ok c lo (l ++ sub) hi)
      by (apply (seg_app c c' lo ln hi); [apply seg_line; assumption | exact IHs | lia]).
    split; [exact Hseg|]. intros pre post Hlen Hpre Hpost.
    replace (pre ++ (l ++ sub) ++ post) with ((pre ++ l) ++ sub ++ post) by (rewrite <- !app_assoc; reflexivity).
    apply IHc.
    + rewrite app_length. lia.
    + apply (pre_app lo); [exact Hpre | | lia].
      destruct Hl as (_ & Lln & _). eapply Forall_impl; [|exact Lln]. cbn beta. intros t Ht. lia.
    + apply (post_ok_le c); [exact Hpost | lia].
  - (* pe_def *)
    intros c off lo l ln hl nmo heo c' sub ds hi Hl Hlo Hd Hcc _ [IHs IHc].
    pose proof (head_at_lines _ _ _ _ Hl) as LL.
    assert (Hlh : (ln <= hl)%Z).
    { destruct Hl as (Lne & _). destruct l as [|a l']; [congruence|]. apply Forall_inv in LL. lia. }
    assert (Hseg : seg_ok c lo (l ++ sub) hi)
      by (apply (seg_app c c' lo hl hi); [apply (seg_head c ln); assumption | exact IHs | lia]).
    split; [exact Hseg|]. intros pre post Hlen Hpre Hpost. constructor.
    + subst off. apply (def_shape c c' lo ln hl hi); assumption.
    + replace (pre ++ (l ++ sub) ++ post) with ((pre ++ l) ++ sub ++ post) by (rewrite <- !app_assoc; reflexivity).
      apply IHc.
      * rewrite app_length. lia.
      * apply (pre_app lo); [exact Hpre | | lia].
        eapply Forall_impl; [|exact LL]. cbn beta. intros t Ht. lia.
      * apply (post_ok_le c); [exact Hpost | lia].
  - (* pb_one *)
    intros c off lo e ds hi _ IH. exact IH.
  - (* pb_more *)
    intros c off lo e ds1 mid r ds2 hi _ [IHe1 IHe2] _ [IHr1 IHr2].
    pose proof (seg_lt _ _ _ _ IHe1) as L1. pose proof (seg_lt _ _ _ _ IHr1) as L2.
    split; [apply (seg_app c c lo mid hi); [exact IHe1 | exact IHr1 | lia]|].
    intros pre post Hlen Hpre Hpost. apply Forall_app. split.
    + replace (pre ++ (e ++ r) ++ post) with (pre ++ e ++ (r ++ post)) by (rewrite <- !app_assoc; reflexivity).
      apply IHe2; [exact Hlen | exact Hpre|]. apply (post_ok_seg c mid r hi mid); [exact IHr1 | lia].
    + replace (pre ++ (e ++ r) ++ post) with ((pre ++ e) ++ r ++ post) by (rewrite <- !app_assoc; reflexivity).
      apply IHr2; [rewrite app_length; lia | | exact Hpost].
      apply (pre_app lo); [exact Hpre | | lia].
      destruct IHe1 as (_ & HF & _). eapply Forall_impl; [|exact HF]. cbn beta. intros t Ht. lia.
Qed.

(* ---------- the ordering clause ---------- *)
Definition desc_rel (di dj : pydesc) : Prop :=
  pd_start di < pd_start dj /\ (py_nested_in dj di \/ py_after dj di).
Definition in_rng (off n : nat) (d : pydesc) : Prop :=
  off <= pd_start d /\ pd_start d < pd_bend d /\ pd_bend d <= off + n.
Definition order_ok (off : nat) (ts : list token) (ds : list pydesc) : Prop :=
  Forall (in_rng off (length ts)) ds /\ StronglySorted desc_rel ds.

Lemma ssorted_app {A} (R : A -> A -> Prop) l1 l2 :
  StronglySorted R l1 -> StronglySorted R l2 -> (forall a b, In a l1 -> In b l2 -> R a b) ->
  StronglySorted R (l1 ++ l2).
Proof.
  intros H1 H2 H. induction H1 as [|a l1 Hs IH Ha]; [exact H2|]. cbn [app]. constructor.
  - apply IH. intros x y Hx Hy. apply H; [right; exact Hx | exact Hy].
  - apply Forall_app. split; [exact Ha|]. apply Forall_forall. intros y Hy. apply H; [left; reflexivity | exact Hy].
Qed.

Lemma ssorted_nth {A} (R : A -> A -> Prop) l : StronglySorted R l ->
  forall i j a b, i < j -> nth_error l i = Some a -> nth_error l j = Some b -> R a b.
Proof.
  induction 1 as [|x l Hs IH Hx]; intros i j a b Hij Hi Hj.
  - destruct i; discriminate.
  - destruct j as [|j]; [lia|]. cbn [nth_error] in Hj. destruct i as [|i].
    + cbn [nth_error] in Hi. injection Hi as <-. rewrite Forall_forall in Hx. apply Hx.
      apply nth_error_In in Hj. exact Hj.
    + cbn [nth_error] in Hi. apply (IH i j); [lia | exact Hi | exact Hj].
Qed.

Lemma pblock_nonempty_len c lo ts hi : seg_ok c lo ts hi -> 0 < length ts.
Proof. intros (Hne & _). destruct ts; [congruence | cbn [length]; lia]. Qed.

Theorem pentry_pblock_order : forall c,
  (forall off lo ts ds hi, pentry c off lo ts ds hi -> order_ok off ts ds) /\
  (forall off lo ts ds hi, pblock c off lo ts ds hi -> order_ok off ts ds).
Proof.
  apply (pentry_pblock_ind (fun _ off _ ts ds _ => order_ok off ts ds) (fun _ off _ ts ds _ => order_ok off ts ds)).
  - intros. split; constructor.
  - intros c off lo l ln c' sub ds hi _ _ _ _ _ [IH1 IH2]. split; [|exact IH2].
    eapply Forall_impl; [|exact IH1]. cbn beta. intros d (H1 & H2 & H3). unfold in_rng. rewrite app_length. lia.
  - intros c off lo l ln hl nmo heo c' sub ds hi Hl _ _ _ Hsub [IH1 IH2].
    assert (Hl0 : 0 < length l) by (apply (head_at_len _ _ _ _ Hl)).
    pose proof (pblock_nonempty_len _ _ _ _ (proj1 (proj2 (pentry_pblock_shape _) _ _ _ _ _ Hsub))) as Hs0.
    split.
    + constructor.
      * unfold in_rng. cbn [pd_start pd_bend]. rewrite app_length. lia.
      * eapply Forall_impl; [|exact IH1]. cbn beta. intros d (H1 & H2 & H3). unfold in_rng. rewrite app_length. lia.
    + constructor; [exact IH2|]. eapply Forall_impl; [|exact IH1]. cbn beta. intros d (H1 & H2 & H3).
      unfold desc_rel, py_nested_in. cbn [pd_start pd_bstart pd_bend]. split; [lia|]. left. lia.
  - intros c off lo e ds hi _ IH. exact IH.
  - intros c off lo e ds1 mid r ds2 hi _ [E1 E2] _ [R1 R2]. split.
    + apply Forall_app. split; [eapply Forall_impl; [|exact E1] | eapply Forall_impl; [|exact R1]]; cbn beta;
        intros d (H1 & H2 & H3); unfold in_rng; rewrite app_length; lia.
    + apply ssorted_app; [exact E2 | exact R2|]. intros a b Ha Hb.
      rewrite Forall_forall in E1, R1. apply E1 in Ha. apply R1 in Hb.
      destruct Ha as (A1 & A2 & A3). destruct Hb as (B1 & B2 & B3).
      unfold desc_rel, py_after. split; [lia|]. right. lia.
Qed.

(* ---------- the theorem ---------- *)
Theorem py_canonical_wf_descs : forall ts ds, py_canonical_program ts ds -> py_wf_descs ts ds.
Proof.
  intros ts ds (c & lo & hi & H).
  destruct (proj2 (pentry_pblock_shape _) _ _ _ _ _ H) as [Hseg Hctx].
  destruct (proj2 (pentry_pblock_order _) _ _ _ _ _ H) as [_ Hord].
  constructor.
  - destruct Hseg as (_ & _ & _ & Hnc & _). exact Hnc.
  - pose proof (Hctx [] [] eq_refl (Forall_nil _) I) as HS. cbn [app] in HS. rewrite app_nil_r in HS. exact HS.
  - intros i j di dj Hij Hi Hj. exact (ssorted_nth desc_rel ds Hord i j di dj Hij Hi Hj).
Qed.
