(* CheckProofs.v — C12: `check` and `scan` agree on every file.  Whatever way a
   file is named on the command line of `check` (its own relative path, or any
   directory above it, the root included) it is checked with the result scan
   computes for it; excluded files are never checked; hidden names are pruned
   only below a directory argument. *)
From Coq Require Import Permutation Sorted.
From Verif Require Import Base BaseProofs Codebase Exclude GenScan FsScan CheckCmd
  CodebaseProofsStr FsProofsWalk.
Open Scope Z_scope.

(* ---------- directories of the tree ---------- *)
(* the directory at a root-relative path ([] = the root), with its children *)
Inductive dir_at : list fnode -> list pystr -> list fnode -> Prop :=
| da_nil children : dir_at children [] children
| da_cons children n cs comps cs' :
    In (Dir n cs) children -> dir_at cs comps cs' -> dir_at children (n :: comps) cs'.

Definition strict_prefix (arg comps : list pystr) : Prop :=
  exists tl, tl <> [] /\ comps = arg ++ tl.

(* ---------- find_node ---------- *)
Lemma find_node_In children name x :
  find_node children name = Some x -> In x children /\ node_name x = name.
Proof.
  induction children as [|y r IH]; cbn [find_node]; [discriminate|].
  destruct (pystr_eqb_spec (node_name y) name) as [E|E].
  - intros H. inversion H; subst. split; [left; reflexivity|reflexivity].
  - intros H. destruct (IH H) as [H1 H2]. split; [right; exact H1|exact H2].
Qed.

Lemma NoDup_name_inj children x y :
  NoDup (map node_name children) -> In x children -> In y children ->
  node_name x = node_name y -> x = y.
Proof.
  induction children as [|z r IH]; intros Hn Hx Hy E; [destruct Hx|].
  cbn [map] in Hn. inversion Hn as [|? ? Hnotin Hn']; subst.
  destruct Hx as [Hx|Hx], Hy as [Hy|Hy].
  - congruence.
  - subst z. exfalso. apply Hnotin. rewrite E. apply in_map. exact Hy.
  - subst z. exfalso. apply Hnotin. rewrite <- E. apply in_map. exact Hx.
  - apply IH; assumption.
Qed.

Lemma find_node_complete children x :
  NoDup (map node_name children) -> In x children -> find_node children (node_name x) = Some x.
Proof.
  induction children as [|y r IH]; intros Hn Hx; [destruct Hx|].
  cbn [find_node]. destruct (pystr_eqb_spec (node_name y) (node_name x)) as [E|E].
  - f_equal. apply (NoDup_name_inj (y :: r)); [exact Hn|left; reflexivity|exact Hx|exact E].
  - destruct Hx as [Hx|Hx]; [subst; contradiction|].
    cbn [map] in Hn. inversion Hn; subst. apply IH; assumption.
Qed.

Lemma wf_tree_sub children n cs : wf_tree children -> In (Dir n cs) children -> wf_tree cs.
Proof.
  intros [_ Hw] Hin. rewrite Forall_forall in Hw. specialize (Hw _ Hin).
  inversion Hw; subst. split; assumption.
Qed.

Section CheckProofs.
  Variable supported : pystr -> option pystr.
  Variable analyze : pystr -> Z -> analysis.

  Notation check_file := (check_file supported analyze).
  Notation check_arg := (check_arg supported analyze).
  Notation scan_tree := (scan_tree supported analyze).

  (* ---------- 1. node_at ---------- *)
  Lemma node_at_cons2 children c c' r :
    node_at children (c :: c' :: r) =
    match find_node children c with Some (Dir _ cs) => node_at cs (c' :: r) | _ => None end.
  Proof. reflexivity. Qed.

  Lemma node_at_name comps : forall children x,
    node_at children comps = Some x -> node_name x = last comps [].
  Proof.
    induction comps as [|c r IH]; intros children x H; [discriminate|].
    destruct r as [|c' r'].
    - cbn [node_at] in H. apply find_node_In in H. destruct H as [_ H]. exact H.
    - rewrite node_at_cons2 in H. destruct (find_node children c) as [[?|n cs]|]; try discriminate.
      apply IH in H. rewrite H. reflexivity.
  Qed.

  Lemma node_at_file_sound comps : forall children nm c,
    node_at children comps = Some (File nm c) -> file_at children comps c.
  Proof.
    induction comps as [|k r IH]; intros children nm c H; [discriminate|].
    destruct r as [|k' r'].
    - cbn [node_at] in H. apply find_node_In in H. destruct H as [Hin Hn]. cbn in Hn. subst nm.
      apply fa_file. exact Hin.
    - rewrite node_at_cons2 in H. destruct (find_node children k) as [[?|n cs]|] eqn:Ef; try discriminate.
      apply find_node_In in Ef. destruct Ef as [Hin Hn]. cbn in Hn. subst n.
      eapply fa_dir; [exact Hin|]. eapply IH. exact H.
  Qed.

  Lemma node_at_file_complete children comps c :
    file_at children comps c -> wf_tree children ->
    node_at children comps = Some (File (last comps []) c).
  Proof.
    induction 1 as [children n c Hin|children n cs comps c Hin Hf IH]; intros Hwf.
    - cbn [node_at last]. apply (find_node_complete children (File n c)); [apply Hwf|exact Hin].
    - pose proof (file_at_nonempty _ _ _ Hf) as Hne.
      destruct comps as [|k' r']; [congruence|].
      rewrite node_at_cons2.
      pose proof (find_node_complete children (Dir n cs) (proj1 Hwf) Hin) as Efn.
      cbn [node_name] in Efn. rewrite Efn.
      rewrite IH by (eapply wf_tree_sub; eassumption). reflexivity.
  Qed.

  (* the node at comps is a file with content c iff the tree has that file there *)
  Theorem node_at_file children comps c :
    wf_tree children ->
    (node_at children comps = Some (File (last comps []) c) <-> file_at children comps c).
  Proof.
    intros Hwf. split.
    - apply node_at_file_sound.
    - intros H. apply node_at_file_complete; assumption.
  Qed.

  Corollary node_at_file' children comps nm c :
    wf_tree children ->
    (node_at children comps = Some (File nm c) <-> nm = last comps [] /\ file_at children comps c).
  Proof.
    intros Hwf. split.
    - intros H. split; [apply node_at_name in H; exact H|eapply node_at_file_sound; exact H].
    - intros [-> H]. apply node_at_file; assumption.
  Qed.

  Lemma node_at_dir_sound comps : forall children nm cs,
    node_at children comps = Some (Dir nm cs) -> dir_at children comps cs.
  Proof.
    induction comps as [|k r IH]; intros children nm cs H; [discriminate|].
    destruct r as [|k' r'].
    - cbn [node_at] in H. apply find_node_In in H. destruct H as [Hin Hn]. cbn in Hn. subst nm.
      eapply da_cons; [exact Hin|constructor].
    - rewrite node_at_cons2 in H. destruct (find_node children k) as [[?|n cs0]|] eqn:Ef; try discriminate.
      apply find_node_In in Ef. destruct Ef as [Hin Hn]. cbn in Hn. subst n.
      eapply da_cons; [exact Hin|]. eapply IH. exact H.
  Qed.

  Lemma node_at_dir_complete children comps cs :
    dir_at children comps cs -> comps <> [] -> wf_tree children ->
    node_at children comps = Some (Dir (last comps []) cs).
  Proof.
    induction 1 as [children|children n cs comps cs' Hin Hd IH]; intros Hne Hwf; [congruence|].
    destruct comps as [|k' r'].
    - inversion Hd; subst. cbn [node_at last].
      apply (find_node_complete children (Dir n cs')); [apply Hwf|exact Hin].
    - rewrite node_at_cons2.
      pose proof (find_node_complete children (Dir n cs) (proj1 Hwf) Hin) as Efn.
      cbn [node_name] in Efn. rewrite Efn.
      rewrite IH; [reflexivity|discriminate|eapply wf_tree_sub; eassumption].
  Qed.

  (* the node at comps is a directory with children cs iff the tree has that directory there *)
  Theorem node_at_dir children comps cs :
    wf_tree children -> comps <> [] ->
    (node_at children comps = Some (Dir (last comps []) cs) <-> dir_at children comps cs).
  Proof.
    intros Hwf Hne. split.
    - apply node_at_dir_sound.
    - intros H. apply node_at_dir_complete; assumption.
  Qed.

  (* ---------- files beneath a directory ---------- *)
  Lemma file_at_under_intro children arg cs :
    dir_at children arg cs -> forall tl c, file_at cs tl c -> file_at children (arg ++ tl) c.
  Proof.
    induction 1 as [children|children n cs comps cs' Hin Hd IH]; intros tl c Hf; [exact Hf|].
    cbn [app]. eapply fa_dir; [exact Hin|]. apply IH. exact Hf.
  Qed.

  Lemma file_at_under_elim children arg cs :
    dir_at children arg cs -> wf_tree children ->
    forall tl c, tl <> [] -> file_at children (arg ++ tl) c -> file_at cs tl c.
  Proof.
    induction 1 as [children|children n cs comps cs' Hin Hd IH]; intros Hwf tl c Hne Hf; [exact Hf|].
    cbn [app] in Hf. inversion Hf as [? ? ? Hin' E1 E2|? ? cs0 ? ? Hin' Hf' E1 E2]; subst.
    - destruct comps; [|discriminate]. destruct tl; [congruence|discriminate].
    - assert (E : Dir n cs0 = Dir n cs)
        by (apply (NoDup_name_inj children); [apply Hwf|assumption|assumption|reflexivity]).
      inversion E; subst cs0. apply IH; [eapply wf_tree_sub; eassumption|exact Hne|exact Hf'].
  Qed.

  (* a file beneath a strict prefix of its path: that prefix is a directory *)
  Lemma file_at_prefix_dir arg : forall children tl c,
    tl <> [] -> file_at children (arg ++ tl) c ->
    exists cs, dir_at children arg cs /\ file_at cs tl c.
  Proof.
    induction arg as [|a arg IH]; intros children tl c Hne Hf.
    - exists children. split; [constructor|exact Hf].
    - cbn [app] in Hf. inversion Hf as [? ? ? Hin' E1 E2|? ? cs0 ? ? Hin' Hf' E1 E2]; subst.
      + destruct arg; [|discriminate]. destruct tl; [congruence|discriminate].
      + destruct (IH cs0 tl c Hne Hf') as [cs [Hd Hf2]].
        exists cs. split; [eapply da_cons; eassumption|exact Hf2].
  Qed.

  Lemma file_at_content_unique children comps c :
    file_at children comps c -> wf_tree children -> forall c', file_at children comps c' -> c' = c.
  Proof.
    intros H Hwf c' H'.
    apply (node_at_file_complete _ _ _ H) in Hwf as E.
    apply (node_at_file_complete _ _ _ H') in Hwf as E'.
    rewrite E in E'. inversion E'. reflexivity.
  Qed.

  (* ---------- risks ---------- *)
  Theorem risks_spec a :
    Permutation (risks a) (filter (fun v => v >? 30) (a_meas a)) /\
    StronglySorted (fun x y => x >= y) (risks a) /\
    forall k, filter (fun v => v =? k) (risks a) =
              filter (fun v => v =? k) (filter (fun v => v >? 30) (a_meas a)).
  Proof.
    unfold risks. split; [apply sort_desc_perm|]. split.
    - exact (sort_desc_sorted (fun v : Z => v) _).
    - intros k. exact (sort_desc_stable (fun v : Z => v) k _).
  Qed.

  Corollary risks_In a v : In v (risks a) <-> In v (a_meas a) /\ v > 30.
  Proof.
    unfold risks. rewrite sort_desc_In, filter_In. rewrite Z.gtb_lt. intuition lia.
  Qed.

  (* ---------- the per-file step of check ---------- *)
  Definition check_step (patterns : list pystr) (f : list pystr * Z) : list (list pystr * list Z) :=
    if excluded patterns (fst f) then [] else check_file (fst f) (snd f).

  Lemma check_step_In patterns f comps rs :
    In (comps, rs) (check_step patterns f) <->
    comps = fst f /\ excluded patterns comps = false /\
    exists lang, supported (last comps []) = Some lang /\ rs = risks (analyze lang (snd f)).
  Proof.
    unfold check_step, CheckCmd.check_file. split.
    - destruct (excluded patterns (fst f)) eqn:Ex; [intros []|].
      destruct (supported (last (fst f) [])) as [lang|] eqn:El; [|intros []].
      intros [H|[]]. inversion H; subst. split; [reflexivity|]. split; [exact Ex|].
      exists lang. split; [exact El|reflexivity].
    - intros [-> [Ex [lang [El ->]]]]. rewrite Ex, El. left. reflexivity.
  Qed.

  Lemma check_steps_In patterns l comps rs :
    In (comps, rs) (flat_map (check_step patterns) l) <->
    exists c lang, In (comps, c) l /\ excluded patterns comps = false /\
                   supported (last comps []) = Some lang /\ rs = risks (analyze lang c).
  Proof.
    rewrite in_flat_map. split.
    - intros [[p c] [Hin H]]. apply check_step_In in H. cbn [fst snd] in H.
      destruct H as [-> [Ex [lang [El ->]]]]. exists c, lang. auto.
    - intros [c [lang [Hin [Ex [El ->]]]]]. exists (comps, c). split; [exact Hin|].
      apply check_step_In. cbn [fst snd]. split; [reflexivity|]. split; [exact Ex|].
      exists lang. auto.
  Qed.

  Lemma check_steps_fst patterns l :
    map fst (flat_map (check_step patterns) l) =
    map fst (filter (qualifies supported patterns) l).
  Proof.
    induction l as [|f l IH]; [reflexivity|].
    cbn [flat_map filter]. rewrite map_app, IH.
    unfold check_step at 1, CheckCmd.check_file, qualifies.
    destruct (excluded patterns (fst f)); cbn [negb andb]; [reflexivity|].
    destruct (supported (last (fst f) [])); reflexivity.
  Qed.

  (* ---------- check_arg, by kind of argument ---------- *)
  Definition is_dir_arg (children : list fnode) (arg : list pystr) : Prop :=
    arg = [] \/ exists n cs, node_at children arg = Some (Dir n cs).

  Lemma check_arg_root patterns children :
    check_arg patterns children [] = flat_map (check_step patterns) (walk_list [] children).
  Proof. reflexivity. Qed.

  Lemma check_arg_dir patterns children arg n cs :
    node_at children arg = Some (Dir n cs) ->
    check_arg patterns children arg = flat_map (check_step patterns) (walk_list arg cs).
  Proof.
    intros H. unfold CheckCmd.check_arg. destruct arg as [|a r]; [discriminate|]. rewrite H. reflexivity.
  Qed.

  Lemma check_arg_file patterns children arg n c :
    node_at children arg = Some (File n c) ->
    check_arg patterns children arg = check_step patterns (arg, c).
  Proof.
    intros H. unfold CheckCmd.check_arg. destruct arg as [|a r]; [discriminate|]. rewrite H. reflexivity.
  Qed.

  Lemma check_arg_none patterns children arg :
    arg <> [] -> node_at children arg = None -> check_arg patterns children arg = [].
  Proof.
    intros Hne H. unfold CheckCmd.check_arg. destruct arg as [|a r]; [congruence|]. rewrite H. reflexivity.
  Qed.

  Lemma is_dir_arg_walk patterns children arg :
    is_dir_arg children arg ->
    exists cs, dir_at children arg cs /\
               check_arg patterns children arg = flat_map (check_step patterns) (walk_list arg cs).
  Proof.
    intros [->|[n [cs H]]].
    - exists children. split; [constructor|apply check_arg_root].
    - exists cs. split; [eapply node_at_dir_sound; exact H|eapply check_arg_dir; exact H].
  Qed.

  Lemma dir_at_is_dir_arg children arg cs :
    wf_tree children -> dir_at children arg cs -> is_dir_arg children arg.
  Proof.
    intros Hwf Hd. destruct arg as [|a r]; [left; reflexivity|right].
    exists (last (a :: r) []), cs. apply node_at_dir_complete; [exact Hd|discriminate|exact Hwf].
  Qed.

  Lemma skipn_length_app {A} (l1 l2 : list A) : skipn (length l1) (l1 ++ l2) = l2.
  Proof. induction l1 as [|x l1 IH]; [reflexivity|exact IH]. Qed.

  (* ---------- 2. a directory argument ---------- *)
  Theorem check_dir_spec patterns children arg comps rs :
    wf_tree children -> is_dir_arg children arg ->
    (In (comps, rs) (check_arg patterns children arg) <->
     exists content lang,
       file_at children comps content /\
       strict_prefix arg comps /\
       Forall (fun n => is_hidden n = false) (skipn (length arg) comps) /\
       excluded patterns comps = false /\
       supported (last comps []) = Some lang /\
       rs = risks (analyze lang content)).
  Proof.
    intros Hwf Hdir. destruct (is_dir_arg_walk patterns children arg Hdir) as [cs [Hd ->]].
    rewrite check_steps_In. split.
    - intros [c [lang [Hin [Ex [El ->]]]]]. apply walk_list_spec in Hin.
      destruct Hin as [tl [-> [Hf Hh]]]. exists c, lang.
      split; [eapply file_at_under_intro; eassumption|].
      split; [exists tl; split; [eapply file_at_nonempty; exact Hf|reflexivity]|].
      rewrite skipn_length_app. auto.
    - intros [c [lang [Hf [[tl [Hne ->]] [Hh [Ex [El ->]]]]]]]. rewrite skipn_length_app in Hh.
      exists c, lang. split; [|auto]. apply walk_list_spec. exists tl.
      split; [reflexivity|]. split; [|exact Hh].
      eapply file_at_under_elim; eassumption.
  Qed.

  (* a file argument: checked unless excluded or unsupported, hidden or not *)
  Theorem check_file_spec patterns children arg content comps rs :
    wf_tree children -> file_at children arg content ->
    (In (comps, rs) (check_arg patterns children arg) <->
     comps = arg /\ excluded patterns arg = false /\
     exists lang, supported (last arg []) = Some lang /\ rs = risks (analyze lang content)).
  Proof.
    intros Hwf Hf. apply node_at_file_complete in Hf; [|exact Hwf].
    rewrite (check_arg_file _ _ _ _ _ Hf), check_step_In. cbn [fst snd].
    split; intros [-> H]; (split; [reflexivity|exact H]).
  Qed.

  (* an argument that names nothing in the tree checks nothing *)
  Theorem check_missing_spec patterns children arg :
    arg <> [] -> node_at children arg = None -> check_arg patterns children arg = [].
  Proof. apply check_arg_none. Qed.

  (* every argument is the root, a file, a directory, or missing *)
  Lemma check_arg_cases patterns children arg :
    (exists cs, check_arg patterns children arg = flat_map (check_step patterns) (walk_list arg cs)
                /\ dir_at children arg cs) \/
    (exists c, check_arg patterns children arg = check_step patterns (arg, c) /\ file_at children arg c) \/
    check_arg patterns children arg = [].
  Proof.
    destruct arg as [|a r].
    - left. exists children. split; [reflexivity|constructor].
    - destruct (node_at children (a :: r)) as [[n c|n cs]|] eqn:E.
      + right. left. exists c. split; [eapply check_arg_file; exact E|eapply node_at_file_sound; exact E].
      + left. exists cs. split; [eapply check_arg_dir; exact E|eapply node_at_dir_sound; exact E].
      + right. right. apply check_arg_none; [discriminate|exact E].
  Qed.

  (* each path is listed at most once *)
  Theorem check_arg_NoDup patterns children arg :
    wf_tree children -> NoDup (map fst (check_arg patterns children arg)).
  Proof.
    intros Hwf. destruct (check_arg_cases patterns children arg) as [[cs [-> Hd]]|[[c [-> _]]| -> ]].
    - rewrite check_steps_fst. apply NoDup_map_filter.
      assert (Hcs : wf_tree cs).
      { clear -Hwf Hd. induction Hd; [exact Hwf|]. apply IHHd. eapply wf_tree_sub; eassumption. }
      destruct Hcs as [Hn Hw]. apply walk_list_NoDup; [exact Hn|].
      intros x Hx. apply walk_node_NoDup. rewrite Forall_forall in Hw. apply Hw. exact Hx.
    - unfold check_step, CheckCmd.check_file. cbn [fst snd].
      destruct (excluded patterns arg); [constructor|].
      destruct (supported (last arg [])); cbn; [|constructor].
      constructor; [intros []|constructor].
    - constructor.
  Qed.

  (* whatever the argument: only non-excluded files of supported languages, with the analysis of their content *)
  Theorem check_arg_sound patterns children arg comps rs :
    In (comps, rs) (check_arg patterns children arg) ->
    exists content lang,
      file_at children comps content /\ excluded patterns comps = false /\
      supported (last comps []) = Some lang /\ rs = risks (analyze lang content) /\
      (comps = arg \/ strict_prefix arg comps /\
                      Forall (fun n => is_hidden n = false) (skipn (length arg) comps)).
  Proof.
    destruct (check_arg_cases patterns children arg) as [[cs [-> Hd]]|[[c [-> Hf]]| -> ]]; [| |intros []].
    - rewrite check_steps_In. intros [c [lang [Hin [Ex [El ->]]]]]. apply walk_list_spec in Hin.
      destruct Hin as [tl [-> [Hf Hh]]]. exists c, lang.
      split; [eapply file_at_under_intro; eassumption|]. repeat (split; [assumption || reflexivity|]).
      right. split; [exists tl; split; [eapply file_at_nonempty; exact Hf|reflexivity]|].
      rewrite skipn_length_app. exact Hh.
    - rewrite check_step_In. cbn [fst snd]. intros [-> [Ex [lang [El ->]]]].
      exists c, lang. repeat (split; [assumption || reflexivity|]). left. reflexivity.
  Qed.

  (* ---------- 3. C12: the file scan analyses is listed by check, with scan's result ---------- *)
  Section Listing.
    Variables (patterns : list pystr) (children : list fnode) (e : sentry).
    Hypothesis Hwf : wf_tree children.
    Hypothesis Hscan : In (e, true) (scan_tree patterns None children).

    (* named by its own relative path: exactly that one entry *)
    Theorem C12_listing_file :
      check_arg patterns children (se_path e) = [(se_path e, risks (se_result e))].
    Proof.
      apply C11_sound in Hscan. destruct Hscan as [Hf [_ [Ex [lang [El [Hr _]]]]]].
      apply node_at_file_complete in Hf; [|exact Hwf].
      rewrite (check_arg_file _ _ _ _ _ Hf). unfold check_step, CheckCmd.check_file. cbn [fst snd].
      rewrite Ex, El, (Hr eq_refl). reflexivity.
    Qed.

    (* named by any directory above it (the root included) *)
    Theorem C12_listing_dir arg :
      strict_prefix arg (se_path e) ->
      In (se_path e, risks (se_result e)) (check_arg patterns children arg).
    Proof.
      intros [tl [Hne Ep]].
      apply C11_sound in Hscan. destruct Hscan as [Hf [Hh [Ex [lang [El [Hr _]]]]]].
      rewrite Ep in Hf. destruct (file_at_prefix_dir arg children tl _ Hne Hf) as [cs [Hd Hf2]].
      rewrite <- Ep in Hf.
      apply check_dir_spec; [exact Hwf|eapply dir_at_is_dir_arg; eassumption|].
      exists (se_checksum e), lang. split; [exact Hf|].
      split; [exists tl; auto|]. split.
      - rewrite Ep, skipn_length_app. rewrite Ep in Hh. apply Forall_app in Hh. apply Hh.
      - rewrite (Hr eq_refl). auto.
    Qed.

    Theorem C12_listing arg :
      arg = se_path e \/ strict_prefix arg (se_path e) ->
      In (se_path e, risks (se_result e)) (check_arg patterns children arg) /\
      (forall rs, In (se_path e, rs) (check_arg patterns children arg) -> rs = risks (se_result e)) /\
      NoDup (map fst (check_arg patterns children arg)).
    Proof.
      intros Harg.
      assert (Hin : In (se_path e, risks (se_result e)) (check_arg patterns children arg)).
      { destruct Harg as [->|Hp]; [rewrite C12_listing_file; left; reflexivity|apply C12_listing_dir; exact Hp]. }
      split; [exact Hin|]. split; [|apply check_arg_NoDup; exact Hwf].
      intros rs Hrs. apply check_arg_sound in Hrs.
      destruct Hrs as [content [lang [Hf [_ [El [-> _]]]]]].
      apply C11_sound in Hscan. destruct Hscan as [Hf0 [_ [_ [lang0 [El0 [Hr _]]]]]].
      rewrite (Hr eq_refl). rewrite El0 in El. inversion El; subst lang0.
      rewrite (file_at_content_unique _ _ _ Hf0 Hwf _ Hf). reflexivity.
    Qed.
  End Listing.

  (* ---------- 4. excluded files are never checked ---------- *)
  Theorem C12_excluded_skipped patterns children comps :
    excluded patterns comps = true ->
    forall arg rs, ~ In (comps, rs) (check_arg patterns children arg).
  Proof.
    intros Ex arg rs H. apply check_arg_sound in H.
    destruct H as [_ [_ [_ [Ex' _]]]]. congruence.
  Qed.

  (* ---------- 5. hidden names below a directory argument are pruned ---------- *)
  Theorem C12_hidden_skipped_via_dir patterns children arg comps :
    strict_prefix arg comps ->
    existsb is_hidden (skipn (length arg) comps) = true ->
    forall rs, ~ In (comps, rs) (check_arg patterns children arg).
  Proof.
    intros [tl [Hne ->]] Hh rs H. apply check_arg_sound in H.
    destruct H as [_ [_ [_ [_ [_ [_ [E|[_ Hn]]]]]]]].
    - rewrite <- (app_nil_r arg) in E at 2. apply app_inv_head in E. contradiction.
    - apply existsb_exists in Hh. destruct Hh as [x [Hx Hx']].
      rewrite Forall_forall in Hn. rewrite (Hn x Hx) in Hx'. discriminate.
  Qed.

  (* but a hidden file named directly is checked *)
  Theorem C12_hidden_file_checked patterns children arg content lang :
    wf_tree children -> file_at children arg content ->
    excluded patterns arg = false -> supported (last arg []) = Some lang ->
    check_arg patterns children arg = [(arg, risks (analyze lang content))].
  Proof.
    intros Hwf Hf Ex El. apply node_at_file_complete in Hf; [|exact Hwf].
    rewrite (check_arg_file _ _ _ _ _ Hf). unfold check_step, CheckCmd.check_file. cbn [fst snd].
    rewrite Ex, El. reflexivity.
  Qed.

  (* ---------- 6. check from the root = scan, file by file, in the same order ---------- *)
  Theorem C12_scanned_is_checked patterns children :
    map (fun eb => (se_path (fst eb), risks (se_result (fst eb)))) (scan_tree patterns None children) =
    check_arg patterns children [].
  Proof.
    rewrite check_arg_root, <- walk_root_list. unfold FsScan.scan_tree.
    induction (walk_root children) as [|f l IH]; [reflexivity|].
    cbn [filter flat_map]. rewrite <- IH.
    unfold check_step at 1, CheckCmd.check_file, qualifies.
    destruct (excluded patterns (fst f)); cbn [negb andb]; [reflexivity|].
    destruct (supported (last (fst f) [])) as [lang|] eqn:El; [|reflexivity].
    cbn [map app]. f_equal. unfold scan_one. rewrite El. reflexivity.
  Qed.

  Corollary C12_same_files patterns children :
    map (fun eb => se_path (fst eb)) (scan_tree patterns None children) =
    map fst (check_arg patterns children []).
  Proof. rewrite <- C12_scanned_is_checked, map_map. reflexivity. Qed.

  (* conversely: whatever check lists, for any argument, scan analyses too with the same
     result, provided no component of the path is hidden (scan prunes from the root) *)
  Theorem C12_checked_is_scanned patterns children arg comps rs :
    In (comps, rs) (check_arg patterns children arg) ->
    Forall (fun n => is_hidden n = false) comps ->
    exists e, In (e, true) (scan_tree patterns None children) /\ se_path e = comps /\ rs = risks (se_result e).
  Proof.
    intros H Hh. apply check_arg_sound in H.
    destruct H as [content [lang [Hf [Ex [El [-> _]]]]]].
    assert (Hs : supported (last comps []) <> None) by congruence.
    destruct (C11_complete supported analyze patterns None children comps content Hf Hh Ex Hs)
      as [e [b [Hin [Ep Ec]]]].
    pose proof (C11_sound supported analyze _ _ _ _ _ Hin) as [_ [_ [_ [lang' [El' [Hr Hb]]]]]].
    specialize (Hb eq_refl). subst b. exists e. split; [exact Hin|]. split; [exact Ep|].
    rewrite (Hr eq_refl), Ec. rewrite Ep, El in El'. inversion El'. reflexivity.
  Qed.
End CheckProofs.

(* ---------- 7. exit status ---------- *)
Lemma filter_nonempty_iff {A} (f : A -> bool) l :
  (0 < length (filter f l))%nat <-> exists x, In x l /\ f x = true.
Proof.
  split.
  - destruct (filter f l) as [|x r] eqn:E; [cbn; lia|]. intros _.
    assert (H : In x (filter f l)) by (rewrite E; left; reflexivity).
    apply filter_In in H. exists x. exact H.
  - intros [x Hx]. apply filter_In in Hx. destruct (filter f l); [destruct Hx|cbn; lia].
Qed.

Theorem C12_exit l :
  (check_exit l = 1 <-> exists p rs v, In (p, rs) l /\ In v rs /\ v > 60) /\
  (check_exit l = 0 <-> forall p rs v, In (p, rs) l -> In v rs -> v <= 60).
Proof.
  assert (Hiff : unm l >? 0 = true <-> exists p rs v, In (p, rs) l /\ In v rs /\ v > 60).
  { unfold unm. rewrite Z.gtb_lt. change 0 with (Z.of_nat 0). rewrite <- Nat2Z.inj_lt.
    rewrite filter_nonempty_iff. split.
    - intros [v [Hin Hv]]. apply in_flat_map in Hin. destruct Hin as [[p rs] [Hin Hv']].
      exists p, rs, v. cbn [snd] in Hv'. apply Z.gtb_lt in Hv. repeat split; [assumption|assumption|lia].
    - intros [p [rs [v [Hin [Hv Hgt]]]]]. exists v. split; [|apply Z.gtb_lt; lia].
      apply in_flat_map. exists (p, rs). split; [exact Hin|exact Hv]. }
  unfold check_exit. destruct (unm l >? 0) eqn:E; split.
  - split; [intros _; apply Hiff; reflexivity|reflexivity].
  - split; [discriminate|]. intros H. exfalso.
    destruct (proj1 Hiff eq_refl) as [p [rs [v [H1 [H2 H3]]]]]. specialize (H p rs v H1 H2). lia.
  - split; [discriminate|]. intros H. apply Hiff in H. discriminate.
  - split; [|reflexivity]. intros _ p rs v H1 H2.
    destruct (Z_le_gt_dec v 60) as [Hle|Hgt]; [exact Hle|].
    assert (H : false = true) by (apply Hiff; exists p, rs, v; auto). discriminate.
Qed.

Corollary C12_exit_01 l : check_exit l = 0 \/ check_exit l = 1.
Proof. unfold check_exit. destruct (unm l >? 0); auto. Qed.
